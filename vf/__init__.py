'''vf - runtime-monitoring machinery for the DAWGIE properties (see ../DESIGN.md)'''
