'''one DAWGIE "foreman process" inside the shard: real modules, scratch data
directories, virtual reactor/clock, real shelve DB, real FSM at rest in running.
'''

import datetime
import os
import shutil
import types

from . import aegen, boot, vreactor

EPOCH = datetime.datetime(2025, 1, 6, 0, 0, 0, tzinfo=datetime.timezone.utc)  # a Monday


class _FakeCert:
    # stands in for the TLS certificate objects so that use_tls() is true and
    # no PGP wrapper is interposed (C14 exercises the wrapper itself)
    def options(self, *_a):
        return self

    def getSubject(self):  # pylint: disable=invalid-name
        return {'commonName': 'vf'}


class World:
    # pylint: disable=too-many-instance-attributes
    def __init__(self, fsm=True, tls=True, root=None):
        self.dawgie = boot.init()
        boot.stub_dot()
        import dawgie.context as ctx  # pylint: disable=import-outside-toplevel
        import dawgie.db  # pylint: disable=import-outside-toplevel
        import dawgie.db.shelve  # pylint: disable=import-outside-toplevel
        import dawgie.pl.farm  # pylint: disable=import-outside-toplevel
        import dawgie.pl.schedule  # pylint: disable=import-outside-toplevel
        import dawgie.pl.state  # pylint: disable=import-outside-toplevel
        import dawgie.security  # pylint: disable=import-outside-toplevel

        self.ctx = ctx
        self.reactor = vreactor.REACTOR
        self.root = root or boot.scratch('world')
        self.aeroot = os.path.join(self.root, 'ae')
        os.makedirs(self.aeroot, exist_ok=True)
        for name in ('dbs', 'logs', 'per', 'stg', 'db', 'fe'):
            os.makedirs(os.path.join(self.root, name), exist_ok=True)
        ctx.data_dbs = os.path.join(self.root, 'dbs')
        ctx.data_log = os.path.join(self.root, 'logs')
        ctx.data_per = os.path.join(self.root, 'per')
        ctx.data_stg = os.path.join(self.root, 'stg')
        ctx.db_path = os.path.join(self.root, 'db')
        ctx.db_rotate_path = ctx.db_path
        ctx.db_rotate = 2
        ctx.db_name = 'vf'
        ctx.db_impl = 'shelve'
        ctx.db_host = 'localhost'
        ctx.fe_path = os.path.join(self.root, 'fe')
        ctx.git_rev = 'rev0'
        ctx.allow_promotion = False
        ctx.email_alerts_to = ''
        self.tls = tls
        if tls:
            dawgie.security._myself.update(  # pylint: disable=protected-access
                {'file': None, 'name': 'vf', 'private': _FakeCert(), 'public': []}
            )
        self.clock_installed = False
        self.fsm = None
        if fsm:
            self.fsm = dawgie.pl.state.FSM()
            ctx.fsm = self.fsm
            self.rest_in_running()

    # -- clock -------------------------------------------------------------
    def now(self):
        return EPOCH + datetime.timedelta(seconds=self.reactor.seconds())

    def install_clock(self, *modules):
        '''make module-level `datetime` names follow the virtual clock'''
        world = self

        class VDT(datetime.datetime):
            @classmethod
            def now(cls, tz=None):
                n = world.now()
                r = cls(n.year, n.month, n.day, n.hour, n.minute, n.second, n.microsecond, tzinfo=n.tzinfo)
                return r if tz is not None else r.replace(tzinfo=None)

            @classmethod
            def utcnow(cls):
                return cls.now().replace(tzinfo=None)

        shim = types.SimpleNamespace(
            datetime=VDT,
            UTC=datetime.timezone.utc,
            timedelta=datetime.timedelta,
            timezone=datetime.timezone,
            date=datetime.date,
            time=datetime.time,
        )
        for m in modules:
            m.datetime = shim
        self.vdt = VDT
        return VDT

    # -- database ------------------------------------------------------------
    def fresh_db(self, targets=()):
        import dawgie.db  # pylint: disable=import-outside-toplevel
        from dawgie.db.shelve.state import DBI  # pylint: disable=import-outside-toplevel

        DBI().close()
        self.ctx.db_lock = False
        for d in ('db', 'dbs', 'stg'):
            p = os.path.join(self.root, d)
            shutil.rmtree(p, ignore_errors=True)
            os.makedirs(p)
        dawgie.db.open()
        for t in targets:
            dawgie.db.add(t)

    # -- life cycle ------------------------------------------------------------
    def rest_in_running(self):
        from dawgie.pl.state import Status  # pylint: disable=import-outside-toplevel

        f = self.fsm
        f.machine.set_state('running')
        f._FSM__transitioning = Status.active  # pylint: disable=protected-access
        f._FSM__prior = None  # pylint: disable=protected-access
        f.priority = None
        f.changeset = None
        f.open_again = False
        f.crew_thread = f.doing_thread = f.todo_thread = None
        f.wait_on_crew.set()
        f.wait_on_doing.set()
        f.wait_on_todo.set()

    def reset_pipeline_state(self):
        import dawgie.pl.farm as farm  # pylint: disable=import-outside-toplevel
        import dawgie.pl.schedule as sch  # pylint: disable=import-outside-toplevel

        self.reactor.reset()
        # every history starts at a definite virtual instant (replayable timers): the epoch, or where the workload says
        self.reactor.rightNow = float(getattr(self, 'start_at', 0.0))
        self.ctx.git_rev = 'rev0'  # (a reload of the previous history moved it)
        farm.clear()
        farm._reject.clear()  # pylint: disable=protected-access
        farm._repeat.clear()  # pylint: disable=protected-access
        farm.insights = {}
        farm.ARCHIVE = False
        sch.que = []
        sch.per = []
        del sch.booted[:]
        del sch.err[:]
        del sch.suc[:]
        sch.pipeline_paused = False
        sch.promote.clear()
        if self.fsm is not None:
            self.rest_in_running()

    def load_engine(self, spec, prerecord=()):
        '''what FSM._pipeline does, on a generated engine; returns factories

        prerecord: algorithm tags whose current versions are recorded in the DB
        before the build (so that the build does not schedule them)
        '''
        import dawgie  # pylint: disable=import-outside-toplevel
        import dawgie.pl.schedule as sch  # pylint: disable=import-outside-toplevel
        import dawgie.pl.version  # pylint: disable=import-outside-toplevel
        import dawgie.util  # pylint: disable=import-outside-toplevel

        facs = aegen.load(spec, self.aeroot)
        allf = (
            facs[dawgie.Factories.analysis]
            + facs[dawgie.Factories.regress]
            + facs[dawgie.Factories.task]
        )
        if prerecord:
            pre = set(prerecord)
            for f in allf:
                bot = f(dawgie.util.task_name(f))
                for alg in bot.routines():
                    # pylint: disable=protected-access
                    if f'{bot._name()}.{alg.name()}' in pre:
                        dawgie.pl.version.record(bot, only=alg.name())
        sch.build(facs, dawgie.pl.version.current(allf), dawgie.pl.version.persistent())
        sch.periodics(facs[dawgie.Factories.events])
        self.facs = facs
        return facs

    def prune_engines(self):
        for d in os.listdir(self.aeroot):
            if d != self.ctx.ae_base_package:
                shutil.rmtree(os.path.join(self.aeroot, d), ignore_errors=True)
