'''end-to-end execution for C02(b): the generated algorithms really run (through
the real worker path and the real shelve store) and their outputs are a
deterministic function of their declared inputs plus a workload-controlled salt.
'''

import importlib

from . import engine_rt
from .result import h64

UNSET = '<never stored>'


def tag_of(alg):
    return f'{alg.__module__.split(".")[-2]}.{alg.name()}'


def content(tag, svn, vn, target, inputs, salt):
    '''the value an algorithm writes: embeds its identity and target (so that equal
    content under another target is not mistaken for "already stored"), its declared
    inputs and, for roots, the salt of this (value, target)'''
    return {'of': f'{tag}.{svn}.{vn}', 'target': target, 'in': inputs, 'salt': salt}


class Exec:
    '''state of one end-to-end history'''

    def __init__(self, sim):
        self.sim = sim
        self.salt = {}  # (tag, svn, vn, target) -> int
        self.log = []  # (tag, target, runid)
        self.checkpoints = 0
        engine_rt.BEHAVIOUR = self.behaviour

    def close(self):
        engine_rt.BEHAVIOUR = None

    # -- what run() does ---------------------------------------------------------
    def declared(self, refs):
        '''{value full name: content} of exactly the declared input values'''
        import dawgie  # pylint: disable=import-outside-toplevel

        out = {}
        for r in refs:
            impl = r.impl
            t = tag_of(impl)
            for sv in impl.state_vectors():
                if isinstance(r, (dawgie.SV_REF, dawgie.V_REF)) and sv.name() != r.item.name():
                    continue
                for vn in sv.keys():
                    if isinstance(r, dawgie.V_REF) and vn != r.feat:
                        continue
                    out[f'{t}.{sv.name()}.{vn}'] = _norm(getattr(sv[vn], 'content', None))
        return out

    def behaviour(self, alg, arg):
        import dawgie  # pylint: disable=import-outside-toplevel

        tag = tag_of(alg)
        if isinstance(alg, dawgie.Algorithm):
            ds = arg
            target = ds._tn()  # pylint: disable=protected-access
            ins = self.declared(alg.previous())
            inputs = sorted([k, _digest(v)] for k, v in ins.items())
        elif isinstance(alg, dawgie.Analyzer):
            aspects = arg
            ds = aspects.ds()
            target = '__all__'
            inputs = []
            wanted = set()
            for r in alg.traits():
                t = tag_of(r.impl)
                for vn in ([r.feat] if isinstance(r, dawgie.V_REF) else list(r.item.keys())):
                    wanted.add((f'{t}.{r.item.name()}', vn))
            for tn in sorted(aspects):
                for fsvn in sorted(aspects[tn]):
                    for vn in sorted(aspects[tn][fsvn]):
                        if (fsvn, vn) in wanted:
                            inputs.append([f'{tn}:{fsvn}.{vn}', _digest(_norm(getattr(aspects[tn][fsvn][vn], 'content', None)))])
        else:
            raise NotImplementedError('regressions are history dependent: not part of the end-to-end engines')
        names = [(sv, vn) for sv in alg.state_vectors() for vn in sv.keys()]
        # some algorithms checkpoint: they write what they have half way and write everything again at the end
        checkpoint = len(names) > 1 and (h64([tag, target, len(self.log)])[0] in '0123')
        for i, (sv, vn) in enumerate(names):
            s = self.salt.get((tag, sv.name(), vn, target), 0)
            sv[vn].content = content(tag, sv.name(), vn, target, inputs, s)
            if checkpoint and i == 0:
                self.checkpoints += 1
                ds.update()
        self.log.append((tag, target, ds._runid()))  # pylint: disable=protected-access
        ds.update()

    # -- the worker ----------------------------------------------------------------
    def run_unit(self, msg):
        '''what worker.cluster.execute does between receiving the task and replying'''
        import dawgie.pl.worker  # pylint: disable=import-outside-toplevel
        from dawgie.db.shelve.state import DBI  # pylint: disable=import-outside-toplevel

        DBI().reopen()
        try:
            factory = getattr(importlib.import_module(msg.factory[0]), msg.factory[1])
            ctxt = dawgie.pl.worker.Context(('localhost', 0), self.sim.world.ctx.git_rev)
            ctxt.abort = lambda: False
            timing = dict(msg.timing or {})
            return ctxt.run(factory, 1, msg.jobid, msg.runid, msg.target, timing)
        finally:
            DBI()._DBI__reopened = False  # pylint: disable=protected-access

    # -- reference: from scratch, in dependency order ----------------------------------
    def from_scratch(self, targets):
        '''{(target, value full name): content} by evaluating the engine spec'''
        ref = self.sim.ref
        out = {}
        # dependency order (own topological sort over the reference parents)
        order, seen = [], set()

        def visit(t):
            if t in seen:
                return
            seen.add(t)
            for p in sorted(ref.parents[t]):
                visit(p)
            order.append(t)

        for t in ref.order:
            visit(t)

        def producer_target(v, tg):
            # a value of an analysis lives under the all-targets marker
            return '__all__' if ref.kind['.'.join(v.split('.')[:2])] == 'analysis' else tg

        for tag in order:
            alg = ref.algs[tag]
            kind = ref.kind[tag]
            if kind == 'task':
                for tg in targets:
                    ins = sorted([v, _digest(out.get((producer_target(v, tg), v), UNSET))] for v in ref.in_values[tag])
                    for sv in alg['svs']:
                        for v in sv['vals']:
                            out[(tg, f'{tag}.{sv["name"]}.{v["name"]}')] = content(
                                tag, sv['name'], v['name'], tg, ins, self.salt.get((tag, sv['name'], v['name'], tg), 0))
            else:
                ins = []
                for tn in sorted(set(targets) | {'__all__'}):
                    for v in sorted(ref.in_values[tag]):
                        if (tn, v) in out:
                            fsvn, vn = v.rsplit('.', 1)
                            ins.append([f'{tn}:{fsvn}.{vn}', _digest(out[(tn, v)])])
                ins.sort()
                for sv in alg['svs']:
                    for v in sv['vals']:
                        out[('__all__', f'{tag}.{sv["name"]}.{v["name"]}')] = content(
                            tag, sv['name'], v['name'], '__all__', ins, self.salt.get((tag, sv['name'], v['name'], '__all__'), 0))
        return out

    def stored(self, targets):
        '''{(target, value full name): content} through real Dataset.load()'''
        import dawgie  # pylint: disable=import-outside-toplevel
        import dawgie.db  # pylint: disable=import-outside-toplevel
        from dawgie.db.shelve.state import DBI  # pylint: disable=import-outside-toplevel

        ref = self.sim.ref
        out = {}
        facs = self.sim.world.facs
        DBI().reopen()
        try:
            for kind, fkey in (('task', dawgie.Factories.task), ('analysis', dawgie.Factories.analysis)):
                for f in facs[fkey]:
                    tn = dawgie.util.task_name(f)
                    for tg in (targets if kind == 'task' else ['__all__']):
                        bot = f(tn, 0, 10**6, tg) if kind == 'task' else f(tn, 0, 10**6)
                        for alg in bot.routines():
                            tag = f'{tn}.{alg.name()}'
                            if ref.kind.get(tag) != kind:
                                continue
                            ds = dawgie.db.connect(alg, bot, tg) if kind == 'task' else dawgie.db.gather(alg, bot).ds()
                            ds.load()
                            for sv in alg.state_vectors():
                                for vn in sv.keys():
                                    out[(tg, f'{tag}.{sv.name()}.{vn}')] = _norm(getattr(sv[vn], 'content', None))
        finally:
            DBI()._DBI__reopened = False  # pylint: disable=protected-access
        return out


def _norm(c):
    return UNSET if c is None else c


def _digest(c):
    '''inputs are embedded by digest (contents would otherwise nest exponentially)'''
    return h64(_freeze(c))


def _freeze(v):
    '''contents are nested dict/list: make them comparable and order independent'''
    if isinstance(v, dict):
        return ['d'] + [[k, _freeze(v[k])] for k in sorted(v)]
    if isinstance(v, (list, tuple)):
        return ['l'] + [_freeze(x) for x in v]
    return v
