'''textual mutants used by vf.selftest (file paths relative to Python/dawgie)'''

MUTANTS = {
    'C09': [
        dict(
            name='ancestry-stops-at-grandparents',
            file='pl/dag.py',
            old='                parents = grands\n',
            new='                parents = set()\n',
        ),
        dict(
            name='as_vref-skips-SV_REF',
            file='util/refs.py',
            old='            yield from svref2vref(reference)\n        if isinstance(reference, dawgie.ALG_REF)',
            new='            pass\n        if isinstance(reference, dawgie.ALG_REF)',
        ),
        dict(
            name='parents-same-task-test',
            file='pl/dag.py',
            old='if self.trim(child.tag, 2) != self.trim(node.tag, 2):',
            new='if self.trim(child.tag, 1) != self.trim(node.tag, 1):',
        ),
        dict(
            name='feedback-added-as-child',
            file='pl/dag.py',
            old="                node.get('feedback').add(self._flat[fbn])\n",
            new="                node.get('feedback').add(self._flat[fbn])\n                self._flat[fbn].add(node)\n",
        ),
        dict(
            name='parents-recursion-drops-known-late',
            file='pl/dag.py',
            old='            for child in children:\n                child.get(\'parents\').add(node)\n            children = list',
            new='            for child in filter(lambda n, k=known: n.tag not in k, children):\n                child.get(\'parents\').add(node)\n            children = list',
        ),
    ],
}
