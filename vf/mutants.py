'''textual mutants used by vf.selftest (file paths relative to Python/dawgie)

Each mutant is one realistic slip; `python -m vf.selftest [IDs]` applies it to a
scratch copy of /repo/Python and expects the property's quick check to exit 1.
A mutant whose pattern no longer occurs is reported (not silently skipped).
'''

S = 'pl/schedule.py'
F = 'pl/farm.py'

MUTANTS = {
    'C01': [
        dict(name='purge-forgets-inflight-dependents', file=S, old="    if executing and not failed:\n", new="    if False:\n"),
        dict(name='in-flight-ignores-farm-queues', file=F, old="        for m in _cluster + _cloud + _reject + _repeat\n", new="        for m in _reject + _repeat\n"),
        dict(name='release-filter-ignores-executing-ancestors', file=S,
             old="                        target in dependency.get('todo')\n                        or target in dependency.get('doing')\n",
             new="                        target in dependency.get('todo')\n"),
        dict(name='release-filter-ignores-all-targets-marker', file=S,
             old="                        target == '__all__'\n                        or '__all__' in dependency.get('todo')\n                        or '__all__' in dependency.get('doing')\n",
             new="                        target == '__all__'\n"),
        dict(name='ancestry-stops-at-grandparents', file='pl/dag.py',
             old='                parents = grands\n', new='                parents = set()\n'),
    ],
    'C02': [
        dict(name='update-ignores-isnew', file=S,
             old='        for vn, _isnew in filter(lambda t: t[1], values):', new='        for vn, _isnew in values:'),
        dict(name='update-matches-on-state-vector', file=S,
             old="                if dawgie.util.vref_as_name(vref) in vns:",
             new="                if any(dawgie.util.vref_as_name(vref).rsplit('.', 1)[0] == v.rsplit('.', 1)[0] for v in vns):"),
        dict(name='res-updates-first-two-values-only', file=F,
             old="                dawgie.pl.schedule.update(msg.values, job, msg.runid)\n",
             new="                dawgie.pl.schedule.update(msg.values[:2], job, msg.runid)\n"),
    ],
    'C03': [
        dict(name='purge-forgets-inflight-dependents', file=S, old="    if executing and not failed:\n", new="    if False:\n"),
        dict(name='dispatch-keeps-do', file=F, old="            j.get('do').clear()\n", new="            pass\n"),
        dict(name='res-keeps-busy-entry', file=F,
             old="        while 0 < _busy.count(done):\n            _busy.remove(done)\n", new="        while False:\n            _busy.remove(done)\n"),
        dict(name='complete-keeps-doing', file=S,
             old="    elif target in job.get('doing'):\n        job.get('doing').remove(target)\n", new="    elif target in job.get('doing'):\n        pass\n"),
    ],
    'C04': [
        dict(name='complete-never-dequeues', file=S,
             old="    if not (job.get('todo') or job.get('doing')):\n        que.remove(job)\n", new="    if not (job.get('todo') or job.get('doing')):\n        pass\n"),
        dict(name='organize-queues-idle-nodes', file=S,
             old="        filter(lambda j: j.get('todo') or j.get('doing'), jobs.values()),", new="        jobs.values(),"),
        dict(name='purge-leaves-queue-entry', file=S,
             old="        and any(job is node for job in que)\n", new="        and False\n"),
    ],
    'C05': [
        dict(name='purge-does-not-recurse', file=S,
             old="    for child in node:\n        purge(child, target, False)\n    return\n", new="    return\n"),
        dict(name='purge-removes-all-targets', file=S,
             old="    if target in node.get('todo', []):\n        node.get('todo').remove(target)\n",
             new="    if target in node.get('todo', []):\n        node.get('todo').clear()\n"),
        dict(name='failure-calls-update', file=F,
             old="            else:\n                dawgie.pl.schedule.purge(job, inc)\n",
             new="            else:\n                dawgie.pl.schedule.purge(job, inc)\n                dawgie.pl.schedule.update(msg.values or [('0.%s.%s.x.y' % (inc, job.tag), True)], job, msg.runid)\n"),
    ],
    'C06': [
        dict(name='fallback-picks-lowest-run', file='db/shelve/model.py', old="                                pk = spks[-1]\n", new="                                pk = spks[0]\n"),
        dict(name='key-without-value-version', file='db/shelve/model.py',
             old="        vid = self._update_cmd(vn, sid, Table.value, None, sv[vn]._get_ver())[1]\n        return (runid, trgtid, tid, aid, sid, vid)",
             new="        vid = self._update_cmd(vn, sid, Table.value, None, None)[1]\n        return (runid, trgtid, tid, aid, sid, vid)"),
    ],
    'C07': [
        dict(name='isnew-is-exists', file='db/shelve/model.py', old="                    isnew = not self._set_prime(vname, sv[k])\n", new="                    isnew = bool(self._set_prime(vname, sv[k]))\n"),
        dict(name='catalogue-before-move', file='db/shelve/comms.py',
             old="            value, exists = dawgie.db.util.move(*request.value)\n            key = str(request.keyset)\n            DBI().tables[request.table.value][key] = value\n",
             new="            key = str(request.keyset)\n            DBI().tables[request.table.value][key] = request.value[1]\n            value, exists = dawgie.db.util.move(*request.value)\n"),
    ],
    'C08': [
        dict(name='next-without-plus-one', file='db/shelve/__init__.py', old="    return max(known) + 1 if known else 1\n", new="    return max(known) if known else 1\n"),
        dict(name='subset-prefix-match', file='db/shelve/util.py',
             old="                        lambda t, sn=surname, vsn=versioned: t[0] == sn\n                        or t[0].startswith(vsn),",
             new="                        lambda t, sn=surname, vsn=versioned: t[0].startswith(sn),"),
        dict(name='append-reuses-table-length', file='db/shelve/util.py', old="        table[name] = len(index)\n", new="        table[name] = max(0, len(table) - 1)\n"),
    ],
    'C09': [
        dict(name='ancestry-stops-at-grandparents', file='pl/dag.py', old='                parents = grands\n', new='                parents = set()\n'),
        dict(name='as_vref-skips-SV_REF', file='util/refs.py',
             old='            yield from svref2vref(reference)\n        if isinstance(reference, dawgie.ALG_REF)', new='            pass\n        if isinstance(reference, dawgie.ALG_REF)'),
        dict(name='parents-same-task-test', file='pl/dag.py',
             old='if self.trim(child.tag, 2) != self.trim(node.tag, 2):', new='if self.trim(child.tag, 1) != self.trim(node.tag, 1):'),
        dict(name='feedback-added-as-child', file='pl/dag.py',
             old="                node.get('feedback').add(self._flat[fbn])\n", new="                node.get('feedback').add(self._flat[fbn])\n                self._flat[fbn].add(node)\n"),
    ],
    'C10': [
        dict(name='wrong-dest-on-one-edge', file='pl/state.dot',
             old="                           source=gitting,\n                           dest=running,\n", new="                           source=gitting,\n                           dest=loading,\n"),
        dict(name='one-edge-loses-its-guard', file='pl/state.dot', old="                                 after=navel_gaze,\n                                 before=at_rest_only];", new="                                 after=navel_gaze];"),
        dict(name='guard-only-refuses-exiting', file='pl/state.py', old="        if self.transitioning != Status.active:\n            raise transitions.MachineError(\n                f'While in {self.state} cannot take", new="        if self.transitioning == Status.exiting:\n            raise transitions.MachineError(\n                f'While in {self.state} cannot take"),
        dict(name='archive-done-ignores-prior', file='pl/state.py', old="        getattr(self, self.__prior + '_trigger')()\n", new="        self.running_trigger()\n"),
        dict(name='load-done-keeps-entering', file='pl/state.py',
             old="        def done(*_args, **_kwds):\n            self.transitioning = Status.active\n            self.contemplation_trigger()\n",
             new="        def done(*_args, **_kwds):\n            self.contemplation_trigger()\n"),
    ],
    'C11': [
        dict(name='reg-accepts-any-revision', file=F, old="        if msg.revision != dawgie.context.git_rev:\n            dawgie.pl.message.send(self._abort, self)\n            log.warning('Worker and pipeline revisions are not the same.')",
             new="        if False:\n            dawgie.pl.message.send(self._abort, self)\n            log.warning('Worker and pipeline revisions are not the same.')"),
        dict(name='connection-lost-keeps-worker', file=F, old="        while 0 < _workers.count(self):\n            _workers.remove(self)\n        return", new="        return"),
        dict(name='rerunid-always-fresh', file=F, old="    if runid is None:\n        runid = dawgie.db.next()", new="    if True:\n        runid = dawgie.db.next()"),
        dict(name='dispatch-ignores-activity', file=F, old="    if not dawgie.context.fsm.is_pipeline_active():\n        log.debug(\"Pipeline is not active. Returning from farm.dispatch().\")\n        return False",
             new="    if False:\n        return False"),
    ],
    'C12': [
        dict(name='priority-max-prefers-weaker', file='tools/submit.py', old="            if a == Priority.CREW and result != Priority.NOW:\n                result = a", new="            if a == Priority.CREW and result == Priority.TODO:\n                result = a"),
        # (removed: 'doing-does-not-cancel-todo' is equivalent for the property - an empty queue implies nothing
        # executing, so the surviving weaker poller can only fire where the stronger condition holds too, and
        # _ready_for() refuses a second firing once the pipeline left the running state)
        dict(name='reset-keeps-priority', file='pl/state.py', old="        self.wait_on_todo.set()\n        self.priority = None\n", new="        self.wait_on_todo.set()\n"),
        dict(name='crew-waits-on-doing-condition', file='pl/state.py', old="        if wait == 'crew':\n            idle = not dawgie.pl.farm._busy\n", new="        if wait == 'crew':\n            idle = not dawgie.pl.schedule.view_doing()\n"),
        dict(name='done-fires-unconditionally', file='pl/state.py', old="            self.todo_thread = None\n            if self.waiting_on_todo():", new="            self.todo_thread = None\n            if True:"),
    ],
    'C13': [
        dict(name='connection-lost-keeps-lock', file='db/shelve/comms.py', old="        if self.__has_lock:\n            log.debug(\"ConnectionLost: Release lock after losing connection =(\")\n            self._unlock_db()", new="        if False:\n            self._unlock_db()"),
        dict(name='grant-without-reading-status', file='db/shelve/comms.py', old="        if s == Mutex.unlock:\n            log.debug(\"_do_acquire(%s): lock is unlocked!\", self.__id_name)", new="        if True:\n            s = Mutex.unlock\n            log.debug(\"_do_acquire(%s): lock is unlocked!\", self.__id_name)"),
        dict(name='release-without-ownership', file='db/shelve/comms.py', old="        log.debug(\"_do_release: has_lock => %d\", self.__has_lock)\n        if self.__has_lock:", new="        log.debug(\"_do_release: has_lock => %d\", self.__has_lock)\n        if True:"),
    ],
    'C14': [
        dict(name='hand-reassembly-off-by-one', file=F, old="        while length <= len(self.__buf):\n            if self.__len is None:\n                self.__len = struct.unpack('>I', self.__buf[:length])[0]", new="        while length < len(self.__buf):\n            if self.__len is None:\n                self.__len = struct.unpack('>I', self.__buf[:length])[0]"),
        dict(name='p4-accepts-any-prefix', file='security.py', old="        return lens[0] == 4\n", new="        return True\n"),
        dict(name='p5-forwards-before-verifying', file='security.py', old="        if response.valid and self.__dr is not None:\n            setattr(self.__p, 'dataReceived', self.__dr)", new="        if self.__dr is not None:\n            setattr(self.__p, 'dataReceived', self.__dr)"),
    ],
    'C15': [
        dict(name='diff-key-presence-only', file=S, old="        if k not in prev or prev[k].count(curr[k]) == 0:", new="        if k not in prev:"),
        dict(name='ans-trimmed-to-task', file=S, old="    ans = {'.'.join(item.split('.')[:2]) for item in dalg + dsv + dv}", new="    ans = {'.'.join(item.split('.')[:2]) for item in dalg + dsv}"),
        dict(name='newer-uses-le', file='__init__.py', old="                and than.bugfix < self.bugfix()\n", new="                and than.bugfix <= self.bugfix()\n"),
    ],
    'C16': [
        dict(name='rule-05-always-true', file='tools/compliant.py', old="    findings = []\n    _walk(task, ifsv=_signal)\n    return all(findings)", new="    findings = []\n    _walk(task, ifsv=_signal)\n    return True"),
        dict(name='verify-uses-any', file='tools/compliant.py', old="        if not all(result):\n            passed = False", new="        if not any(result):\n            passed = False"),
    ],
    'C17': [
        dict(name='drops-state-vector-constraint', file='db/shelve/search.py', old="            ) and all(not c or e in c for c, e in zip(constraints[1:], pk[1:])):", new="            ) and all(not c or e in c for c, e in zip(constraints[1:4], pk[1:4])):"),
        # (removed: 'scrub-merge-off-by-one' only leaves two overlapping ranges unmerged - the denoted set is the same)
        dict(name='scrub-merge-drops-head', file='db/basis.py', old="                                start=merged[-1].start, stop=r.stop\n", new="                                start=r.start, stop=r.stop\n"),
        dict(name='keylen-six', file='db/shelve/search.py', old="    def _prime_keys(self, parameters, keylen=5) -> [()]:", new="    def _prime_keys(self, parameters, keylen=4) -> [()]:"),
    ],
    'C18': [
        dict(name='inclusive-bounds', file='pl/logger/chronicle.py', old="                if after < completed < before and entry['status'] == status:", new="                if after <= completed <= before and entry['status'] == status:"),
        dict(name='sort-ascending', file='pl/logger/chronicle.py', old="    entries.sort(key=_most_recent_first, reverse=True)", new="    entries.sort(key=_most_recent_first)"),
        dict(name='append-overwrites', file='pl/logger/chronicle.py', old="    if os.path.isfile(journal):\n        with open(journal, 'rt', encoding='utf-8') as file:\n            entries = json.load(file)", new="    if False:\n        pass"),
    ],
    'C19': [
        dict(name='containment-on-unresolved-path', file='fe/__init__.py', old="        ffn = (d / fn).resolve()\n", new="        ffn = d / fn\n"),
        dict(name='run-in-allow-list', file='security.py', old="            # '/api/cmd/run',  # should require client cert (any)", new="            '/api/cmd/run',"),
        dict(name='sanctioned-defaults-true', file='security.py', old="            'Could not determine if endpoint is sanctioned. '\n            'Defaulting to False.'\n        )\n    return False", new="            'Could not determine if endpoint is sanctioned. '\n            'Defaulting to False.'\n        )\n    return True"),
    ],
    'C20': [
        # (removed: 'due-window-zero' only makes events fire on time instead of up to 5 min early)
        dict(name='due-window-excludes-late-wakeup', file=S, old="                if ts > 300.0:\n                    delay.append(ts)\n", new="                if not 0.0 <= ts <= 300.0:\n                    delay.append(max(ts, 3600.0))\n"),
        dict(name='defer-forgets-fired-occurrence', file=S, old="                if fired.get(i) != occurrence:\n", new="                if True:\n"),
        dict(name='defer-no-rearm-after-firing', file=S, old="                if now < again:\n", new="                if False:\n"),
        dict(name='defer-skips-nodes-that-ran', file=S, old="        if any(job is t for job in que):\n            delay.append(60.0)\n            continue\n", new="        if any(job is t for job in que) or t.get('status') == State.waiting:\n            delay.append(60.0)\n            continue\n"),
        dict(name='dow-offset-off-by-one', file=S, old="    today = now.isoweekday() - 1\n", new="    today = now.isoweekday()\n"),
        dict(name='booted-cleared-by-build', file=S, old="    dawgie.pl.schedule.que = []\n    dawgie.pl.schedule.per = []\n    log.info('build() - computing version differences')", new="    dawgie.pl.schedule.que = []\n    dawgie.pl.schedule.per = []\n    del booted[:]\n    log.info('build() - computing version differences')"),
    ],
}
