'''shared shard loop for the simfarm-based properties (C01-C05, C11)'''

import copy
import random

from . import aegen, simfarm, world
from .result import CaseTimeout, Result, deadline, h64, keep_going

BUILD_DEADLINE = 20.0

_WORLD = []


def get_world():
    if not _WORLD:
        w = world.World()
        import dawgie.pl.schedule as sch  # pylint: disable=import-outside-toplevel

        w.install_clock(sch)  # timer events follow the virtual reactor
        _WORLD.append(w)
    return _WORLD[0]


def gen_case(rng, opts):
    n = rng.choice(opts.get('sizes', [2, 3, 3, 4, 4, 5, 6, 7, 8, 10, 12]))
    spec = aegen.generate(
        rng,
        n_algs=n,
        p_event=opts.get('p_event', 0.15),
        p_feedback=opts.get('p_feedback', 0.2),
        p_analysis=opts.get('p_analysis', 0.22),
        p_regress=opts.get('p_regress', 0.1),
        max_svs=2,
        max_vals=3,
        shape=rng.choice(opts.get('shapes', ['random', 'chain', 'deep', 'diamond', 'fan', 'deep'])),
    )
    nt = rng.choice(opts.get('ntargets', [1, 1, 2, 2, 3, 5]))
    targets = [f'T{i}' for i in range(nt)]
    if rng.random() < opts.get('p_hostile_targets', 0.3) and nt >= 2:
        targets[1] = targets[0] + 'x'  # one target name a prefix of another
    ref = aegen.Reference(spec)
    k = rng.random()
    if k < 0.35:
        pre = []  # first boot: every algorithm is a new version
    elif k < 0.7:
        pre = list(ref.order)  # nothing new
    else:
        pre = [t for t in ref.order if rng.random() < 0.6]
    return {'spec': spec, 'targets': targets, 'prerecord': pre}


def run_history(case, events, monitors, rng=None, profile=None, n_events=0, drain=None):
    '''replay `events` then (if rng) generate n_events more; returns the Sim'''
    w = get_world()
    # graph construction enumerates paths: dense engines of ~25+ algorithms take minutes to hours to
    # build (observation, see DESIGN 7.3); such an engine is skipped, not waited for
    try:
        with deadline(BUILD_DEADLINE):
            sim = simfarm.Sim(w, case['spec'], case['targets'], case['prerecord'], monitors)
    except CaseTimeout:
        return None
    try:
        for ev in events:
            sim.apply(copy.deepcopy(ev))
            if sim.bad:
                return sim
        if rng is not None:
            drv = simfarm.Driver(rng, sim, profile or simfarm.DEFAULT_PROFILE)
            for _ in range(n_events):
                sim.apply(drv.pick())
                if sim.bad:
                    return sim
        sim.n_pre_drain = len(sim.events)
        sim.drain_spec = None
        if drain and not sim.bad:
            sim.drain_rounds = simfarm.drain(sim, drain['max_rounds'], drain.get('outcome', 'success'), drain.get('new', (False,)))
            sim.drain_spec = drain
    finally:
        sim.close()
    return sim


def witness_of(case, sim):
    n = getattr(sim, 'n_pre_drain', len(sim.events))
    return {
        'spec': case['spec'], 'targets': case['targets'], 'prerecord': case['prerecord'],
        'events': sim.events[:n], 'drain': getattr(sim, 'drain_spec', None),
    }


def replay_witness(witness, make_monitors, pid, classify):
    res = Result()
    case = {k: witness[k] for k in ('spec', 'targets', 'prerecord')}
    monitors = make_monitors()
    sim = run_history(case, witness['events'], monitors, drain=witness.get('drain'))
    for m in monitors:
        m.finish(sim, res, 'replay')
    for clause, detail, mech in sim.bad:
        res.violation(clause, detail, witness, mechanism=mech or classify(clause, detail, sim))
    res.count('evaluations')
    return res


def shard_loop(spec, pid, make_monitors, classify, opts):
    '''generic: generate histories until the budget is used'''
    res = Result()
    rng = random.Random(spec['seed'])
    w = get_world()
    n = 0
    while keep_going(res, spec):
        case = gen_case(rng, opts)
        monitors = make_monitors()
        profile = opts['profile'](rng) if callable(opts.get('profile')) else opts.get('profile')
        nev = rng.choice(opts.get('lengths', [20, 40, 80, 150]))
        drain = opts.get('drain')
        if callable(drain):
            drain = drain(rng, case)
        sim = run_history(case, [], monitors, rng, profile, nev, drain)
        if sim is None:
            res.count('engines_skipped_build_exceeded_deadline')
            w.reset_pipeline_state()
            continue
        n += 1
        res.count('evaluations')
        res.count('events', len(sim.events))
        res.count('releases', len(sim.releases))
        ref = aegen.Reference(case['spec'])
        shape = ref.shape_hash()
        res.see('engine_shapes', shape)
        res.see('histories', h64([shape, sim.events]))
        for m in monitors:
            m.finish(sim, res, shape)
        if n <= 2:
            res.sample(
                {
                    'engine': {'style': case['spec']['style'], 'edges': sorted(ref.aedges), 'kinds': ref.kind},
                    'targets': case['targets'],
                    'prerecorded_versions': case['prerecord'],
                    'events': sim.events[:40],
                    'observations': sim.log[:60],
                }
            )
        if sim.bad:
            wit = witness_of(case, sim)
            for clause, detail, mech in sim.bad[:3]:
                res.violation(clause, detail, wit, mechanism=mech or classify(clause, detail, sim))
        if n % 50 == 0:
            w.prune_engines()
    return res
