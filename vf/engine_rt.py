'''what a generated algorithm's run() does: whatever the workload installed'''

BEHAVIOUR = None


def run(alg, *args):
    if BEHAVIOUR is not None:
        return BEHAVIOUR(alg, *args)
    return None
