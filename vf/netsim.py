'''in-memory network: dawgie.security.connect -> real server protocol on a
StringTransport.  Everything above the socket (framing, pickling, lock polling,
Connector, comms.acquire/release, message.send/receive) is the real code.
'''

from twisted.internet.address import IPv4Address
from twisted.internet.error import ConnectionDone
from twisted.internet.testing import StringTransport
from twisted.python.failure import Failure

LOST = Failure(ConnectionDone())


class WouldBlock(Exception):
    '''recv() waited the whole (virtual) spin budget without data'''


class PeerClosed(ConnectionError):
    pass


class SimSocket:
    # pylint: disable=too-many-instance-attributes
    def __init__(self, net, proto, transport, addr):
        self.net = net
        self.proto = proto
        self.tr = transport
        self.addr = addr
        self.buf = b''
        self.lost = False  # connectionLost delivered to the server protocol
        self.closed = False  # client closed

    # -- server side bookkeeping -------------------------------------------
    def _after_delivery(self):
        if self.tr.disconnecting and not self.lost:
            self.lose()

    def lose(self):
        if not self.lost:
            self.lost = True
            self.proto.connectionLost(LOST)
            for cb in self.net.on_lost:
                cb(self)

    def _pull(self):
        data = self.tr.value()
        if data:
            self.tr.clear()
            self.buf += data

    # -- socket interface -------------------------------------------------------
    def sendall(self, data):
        if self.closed:
            raise OSError('socket closed')
        for chunk in self.net.cut(data):
            if self.lost:
                raise PeerClosed('connection closed by server')
            self.net.bytes_sent += len(chunk)
            self.proto.dataReceived(chunk)
            self._after_delivery()
        return None

    send = sendall

    def recv(self, n):
        spins = 0
        while True:
            self._pull()
            if self.buf:
                break
            if self.lost:
                raise PeerClosed('connection closed by server, nothing left to read')
            if spins >= self.net.max_spin:
                raise WouldBlock(f'no data after {spins} ticks of {self.net.tick}s')
            if self.net.deadline is not None and self.net.reactor.seconds() > self.net.deadline:
                raise WouldBlock('virtual deadline of the blocking call passed')
            spins += 1
            self.net.waits += 1
            self.net.reactor.advance(self.net.tick)
            self._after_delivery()
        k = n if self.net.recv_max is None else max(1, min(n, self.net.recv_max))
        out, self.buf = self.buf[:k], self.buf[k:]
        return out

    def close(self):
        self.closed = True
        self.lose()

    def shutdown(self, _how):
        self.close()

    def settimeout(self, _t):
        return None


class Net:
    # pylint: disable=too-many-instance-attributes
    def __init__(self, reactor):
        self.reactor = reactor
        self.tick = 1.0
        self.max_spin = 40
        self.recv_max = None
        self.deadline = None  # virtual time after which a blocking recv gives up
        self.chunker = None  # callable(bytes) -> iterable of chunks
        self.conns = []
        self.on_lost = []
        self.bytes_sent = 0
        self.waits = 0
        self.next_port = 50000
        self._orig = None

    def cut(self, data):
        if self.chunker is None:
            return [data]
        return [c for c in self.chunker(data) if c]

    def connect(self, address):
        fac = self.reactor.factory_for(address[1])
        if fac is None:
            raise ConnectionRefusedError(f'nothing listens on port {address[1]}')
        self.next_port += 1
        addr = IPv4Address('TCP', '127.0.0.1', self.next_port)
        proto = fac.buildProtocol(addr)
        tr = StringTransport(peerAddress=addr)
        proto.makeConnection(tr)
        s = SimSocket(self, proto, tr, addr)
        self.conns.append(s)
        return s

    def install(self):
        import dawgie.security  # pylint: disable=import-outside-toplevel

        if self._orig is None:
            self._orig = dawgie.security.connect
        dawgie.security.connect = self.connect
        return self

    def uninstall(self):
        import dawgie.security  # pylint: disable=import-outside-toplevel

        if self._orig is not None:
            dawgie.security.connect = self._orig
            self._orig = None

    def reset(self):
        for s in self.conns:
            if not s.lost:
                s.lost = True
        self.conns = []
