'''child process for C07 crash enumeration

  python -m vf.crashchild <root> <k> <shape>

Opens the shelve DB under <root> (prepared by the parent), performs ONE
Dataset.update of a state vector and os._exit(77)s at the k-th line event
executed inside the update path (sys.monitoring LINE events restricted to the
code objects listed in TARGETS).  k < 0: run to completion and print the number
of line events seen.
'''

import os
import sys


def main():
    root, k, shape = sys.argv[1], int(sys.argv[2]), int(sys.argv[3])
    from . import boot  # pylint: disable=import-outside-toplevel

    boot.init()
    from . import dbsim, world  # pylint: disable=import-outside-toplevel

    w = world.World(fsm=False, root=root)
    import dawgie.db  # pylint: disable=import-outside-toplevel
    import dawgie.db.util  # pylint: disable=import-outside-toplevel
    import dawgie.db.shelve.comms as comms  # pylint: disable=import-outside-toplevel
    import dawgie.db.shelve.model as model  # pylint: disable=import-outside-toplevel
    import dawgie.db.shelve.util as sutil  # pylint: disable=import-outside-toplevel

    dawgie.db.open()
    sim = dbsim.DbSim(w)
    import random  # pylint: disable=import-outside-toplevel

    rng = random.Random(4242)
    schema = dbsim.Schema(rng, n_algs=2)
    tk, an = schema.keys()[0]
    a = schema.algs[(tk, an)]
    # shape 0: one known content + one new; 1: all new; 2: all already stored; 3: metric-like second update of same key
    contents = {}
    i = 0
    for svn, s in sorted(a['svs'].items()):
        for vn in sorted(s['vals']):
            known = {'uid': None, 'data': f'known-{i % 2}'}
            new = {'uid': f'crash-new-{i}', 'data': [i, shape]}
            if shape == 0:
                contents[(svn, vn)] = known if i % 2 == 0 else new
            elif shape == 1:
                contents[(svn, vn)] = new
            else:
                contents[(svn, vn)] = known
            i += 1
    targets = {
        dawgie.db.util.encode.__code__,
        dawgie.db.util.move.__code__,
        comms.Worker.do.__code__,
        comms.Connector._set_prime.__code__,  # pylint: disable=protected-access
        model.Interface._update.__code__,  # pylint: disable=protected-access
        sutil.append.__code__,
    }
    mon = sys.monitoring
    tool = mon.DEBUGGER_ID
    mon.use_tool_id(tool, 'vf-crash')
    seen = [0]
    where = []

    def line(code, lineno):
        if code not in targets:
            return mon.DISABLE
        seen[0] += 1
        if k < 0:
            where.append(f'{code.co_name}:{lineno}')
        if seen[0] == k:
            os._exit(77)
        return None

    mon.register_callback(tool, mon.events.LINE, line)
    mon.set_events(tool, mon.events.LINE)
    run = 3 if shape != 3 else 1
    sim.update(schema, tk, an, 'T', run, contents)
    mon.set_events(tool, 0)
    dawgie.db.close()
    print('LINES', seen[0])
    print('WHERE', ' '.join(where))
    sys.stdout.flush()
    os._exit(0)


if __name__ == '__main__':
    main()
