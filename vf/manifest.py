'''regenerates /verif/MANIFEST.json from the table below: python -m vf.manifest'''

import json
import os

VERIF = os.path.dirname(os.path.dirname(os.path.abspath(__file__)))

BASELINE_OFF = (
    'cd /repo && env -u DAWGIE_VERIF /venv/bin/python -m pytest -ra -q -p no:cacheprovider '
    '--timeout=900 --continue-on-collection-errors'
)

TRUST = (
    'Trusted base: CPython, Twisted, the harness (vf/) and its reference models. '
    'Verdict is "held on the executions observed", never a proof.'
)

SIM = (' Histories run the real schedule/dag/farm/message/FSM code on a virtual reactor with fake workers that '
       'follow the wire protocol of worker.cluster.execute; the ledger is built from boundary observations only.')

CHECKS = {
    'C01': dict(
        category='exploration',
        technique='runtime monitor at next_job_batch return + task hand-over, oracle = reference ancestor closure x ledger of in-flight units, random event histories on the real scheduler/farm',
        text=(
            'Thousands of random histories (requests, new data, failures, re-requests of executing units, replies in '
            'any order) over generated graphs; at the instant of every release the reference ancestors must be idle '
            'for the target (node todo and the in-flight ledger). Schedules here are orders of reactor callbacks, '
            'which the harness produces exactly, so sampled exploration of histories is the reachable level.'
        ),
        design='DESIGN.md §2 C01',
        note=TRUST + SIM + ' Known finding C01/purge-forgets-executing-descendant is reported, not suppressed silently.',
    ),
    'C03': dict(
        category='exploration',
        technique='runtime ledger monitor (released/queued/handed/replied/applied per unit) with conservation, exactly-once and crew-view invariants after every event',
        text=(
            'Same simulated farm, biased to re-request in-flight units with few workers. Invariants: <=1 execution '
            'per unit in flight, each task message on one transport, released = handed + queued, each reply applied '
            'exactly once (complete, one journal entry, update xor purge), crew()[busy] == units on workers.'
        ),
        design='DESIGN.md §2 C03',
        note=TRUST + SIM + ' One reply per task message. Known finding C03/purge-forgets-executing-descendant.',
    ),
    'C09': dict(
        category='exploration',
        technique='runtime monitor: reference-graph oracle over generated engines fed to the real dag.Construct',
        text=(
            'Tens of thousands of generated engines (both package styles, all reference granularities, '
            'diamonds, feedback) are scanned and built by the real code; every node set, edge set, '
            'ancestry, parents and feedback map is compared with a 40-line set-based reference. '
            'C09 is a pure function of the program, so breadth of generated programs is the right level.'
        ),
        design='DESIGN.md §2 C09',
        note=TRUST + ' Names restricted to [A-Za-z0-9_]; dot rendering stubbed except a thorough-tier sample.',
    ),
}

CHECKS.update(
    {
        'C04': dict(
            category='exploration',
            technique='runtime monitor of the idle state (que/view_todo/view_doing/crew vs ledger), runnable-set oracle before every dispatch, bounded-round drain to quiescence',
            text=(
                'Random histories followed by a drain phase on the real scheduler/farm. Liveness is decided in its '
                'bounded form: whenever the ledger shows nothing pending/queued/in flight all four idle views must be '
                'empty; every pending unit whose reference ancestors are idle must be released by the next dispatch; '
                'the drain must reach idle within a bound computed from the graph. Exploration of histories is the '
                'reachable level for an all-orders liveness statement.'
            ),
            design='DESIGN.md §2 C04',
            note=TRUST + SIM + ' Unbounded "eventually" is replaced by the bounded forms stated; workers always answer.',
        ),
        'C05': dict(
            category='exploration',
            technique='runtime frame-condition monitor: snapshot of every node (todo, doing, do) before/after each non-success Hand._res vs reference descendant set, plus journal check',
            text=(
                'Histories with 30-60% failure/invalid outcomes; around each failing reply the complete scheduler '
                'state is snapshotted and compared with the frame computed from the reference graph (withdrawn from '
                'descendants, nothing else changed, nothing added, no organize/update call, exactly one journal entry).'
            ),
            design='DESIGN.md §2 C05',
            note=TRUST + SIM + " The executing set of dependents and X's own re-request are observed, not judged (the property does not state them).",
        ),
    }
)

NOT_YET = {}


def build():
    props = []
    with open(os.path.join(VERIF, 'properties.jsonl'), 'rt', encoding='utf-8') as f:
        for line in f:
            if line.strip():
                props.append(json.loads(line)['id'])
    import importlib

    for pid in props:
        try:
            mod = importlib.import_module('vf.props.' + pid.lower())
        except ImportError:
            continue
        if hasattr(mod, 'MANIFEST'):
            CHECKS[pid] = mod.MANIFEST
    checks = []
    for pid in props:
        if pid not in CHECKS:
            continue
        c = CHECKS[pid]
        checks.append(
            {
                'property_id': pid,
                'quick_cmd': f'./check {pid} --tier quick',
                'thorough_cmd': f'./check {pid} --tier thorough',
                'evidence_file': f'evidence/{pid}.json',
                'replay_cmd_template': f'./check {pid} --replay {{path}}',
                'engine': c.get('engine', 'vf'),
                'level_claimed': {
                    'category': c['category'],
                    'text': c['text'],
                    'design_ref': c['design'],
                },
                'level_note': c['note'],
                'technique': c['technique'],
            }
        )
    na = [
        {'property_id': pid, 'reason': NOT_YET.get(pid, 'check not built yet in this session (planned, see DESIGN.md §2)')}
        for pid in props
        if pid not in CHECKS
    ]
    man = {
        'version': 1,
        'setup_cmd': (
            '/venv/bin/pip install -q --no-index --find-links /opt/veriftools/wheels '
            '--target /verif/.deps icontract || true'
        ),
        'hooks': {
            'guard': 'DAWGIE_VERIF',
            'enable': (
                'no source hooks: checks import /repo/Python directly (PYTHONPATH) and instrument it from '
                'outside (module-attribute wrappers, virtual reactor, sys.monitoring); DAWGIE_VERIF=1 is '
                'exported by the harness only as a marker'
            ),
            'baseline_off_cmd': BASELINE_OFF,
            'source_commits': [],
            'add_only': True,
        },
        'engines': [
            {
                'name': 'vf',
                'path': 'vf/',
                'serves_properties': [c['property_id'] for c in checks],
                'kind_free_text': (
                    'runtime monitoring harness: virtual Twisted reactor, in-memory network, engine '
                    'generator + reference graph, simulated farm / database / life-cycle drivers, '
                    'per-property monitors (vf/props)'
                ),
            }
        ],
        'checks': checks,
        'not_applicable': na,
        'notes': (
            'All checks: ./check <ID> [--tier quick|thorough] [--replay file]; exit 0 held / 1 violation / '
            '2 inconclusive. VERIF_SEED seeds everything; VERIF_REPO selects another tree (self-test only). '
            'known_findings.json lists 22 fixed: entries (18 fix: commits in /repo; they suppress nothing) and '
            'no open finding. A quick run takes 25-130 s per property on 16 idle cores (time-budgeted; on a loaded '
            'machine the shards keep going up to 5x until the floors of the deciding counters are reached), a '
            'thorough run 7-30 min. seeded/ holds 89 independently produced property-breaking changes with the '
            'check results (seeded/RESULTS.md); python -m vf.selftest runs 68 textual mutants.'
        ),
    }
    return man


def main():
    man = build()
    with open(os.path.join(VERIF, 'MANIFEST.json'), 'wt', encoding='utf-8') as f:
        json.dump(man, f, indent=1)
        f.write('\n')
    print('wrote MANIFEST.json with', len(man['checks']), 'checks,', len(man['not_applicable']), 'not applicable')


if __name__ == '__main__':
    main()
