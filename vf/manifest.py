'''regenerates /verif/MANIFEST.json from the table below: python -m vf.manifest'''

import json
import os

VERIF = os.path.dirname(os.path.dirname(os.path.abspath(__file__)))

BASELINE_OFF = (
    'cd /repo && env -u DAWGIE_VERIF /venv/bin/python -m pytest -ra -q -p no:cacheprovider '
    '--timeout=900 --continue-on-collection-errors'
)

TRUST = (
    'Trusted base: CPython, Twisted, the harness (vf/) and its reference models. '
    'Verdict is "held on the executions observed", never a proof.'
)

CHECKS = {
    'C09': dict(
        category='exploration',
        technique='runtime monitor: reference-graph oracle over generated engines fed to the real dag.Construct',
        text=(
            'Tens of thousands of generated engines (both package styles, all reference granularities, '
            'diamonds, feedback) are scanned and built by the real code; every node set, edge set, '
            'ancestry, parents and feedback map is compared with a 40-line set-based reference. '
            'C09 is a pure function of the program, so breadth of generated programs is the right level.'
        ),
        design='DESIGN.md §2 C09',
        note=TRUST + ' Names restricted to [A-Za-z0-9_]; dot rendering stubbed except a thorough-tier sample.',
    ),
}

NOT_YET = {}


def build():
    props = []
    with open(os.path.join(VERIF, 'properties.jsonl'), 'rt', encoding='utf-8') as f:
        for line in f:
            if line.strip():
                props.append(json.loads(line)['id'])
    checks = []
    for pid in props:
        if pid not in CHECKS:
            continue
        c = CHECKS[pid]
        checks.append(
            {
                'property_id': pid,
                'quick_cmd': f'./check {pid} --tier quick',
                'thorough_cmd': f'./check {pid} --tier thorough',
                'evidence_file': f'evidence/{pid}.json',
                'replay_cmd_template': f'./check {pid} --replay {{path}}',
                'engine': c.get('engine', 'vf'),
                'level_claimed': {
                    'category': c['category'],
                    'text': c['text'],
                    'design_ref': c['design'],
                },
                'level_note': c['note'],
                'technique': c['technique'],
            }
        )
    na = [
        {'property_id': pid, 'reason': NOT_YET.get(pid, 'check not built yet in this session (planned, see DESIGN.md §2)')}
        for pid in props
        if pid not in CHECKS
    ]
    man = {
        'version': 1,
        'setup_cmd': (
            '/venv/bin/pip install -q --no-index --find-links /opt/veriftools/wheels '
            '--target /verif/.deps icontract || true'
        ),
        'hooks': {
            'guard': 'DAWGIE_VERIF',
            'enable': (
                'no source hooks: checks import /repo/Python directly (PYTHONPATH) and instrument it from '
                'outside (module-attribute wrappers, virtual reactor, sys.monitoring); DAWGIE_VERIF=1 is '
                'exported by the harness only as a marker'
            ),
            'baseline_off_cmd': BASELINE_OFF,
            'source_commits': [],
            'add_only': True,
        },
        'engines': [
            {
                'name': 'vf',
                'path': 'vf/',
                'serves_properties': [c['property_id'] for c in checks],
                'kind_free_text': (
                    'runtime monitoring harness: virtual Twisted reactor, in-memory network, engine '
                    'generator + reference graph, simulated farm / database / life-cycle drivers, '
                    'per-property monitors (vf/props)'
                ),
            }
        ],
        'checks': checks,
        'not_applicable': na,
        'notes': (
            'All checks: ./check <ID> [--tier quick|thorough] [--replay file]; exit 0 held / 1 violation / '
            '2 inconclusive. VERIF_SEED seeds everything; VERIF_REPO selects another tree (self-test only).'
        ),
    }
    return man


def main():
    man = build()
    with open(os.path.join(VERIF, 'MANIFEST.json'), 'wt', encoding='utf-8') as f:
        json.dump(man, f, indent=1)
        f.write('\n')
    print('wrote MANIFEST.json with', len(man['checks']), 'checks,', len(man['not_applicable']), 'not applicable')


if __name__ == '__main__':
    main()
