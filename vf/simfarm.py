'''simulated farm: real schedule / dag / farm / message / FSM / shelve DB,
fake workers that follow the wire protocol of worker.cluster.execute, and a
ledger built only from boundary observations.  Shared by C01-C05, C11, C20.
'''

import glob
import json
import os
import pickle
import struct

from twisted.internet.address import IPv4Address
from twisted.internet.error import ConnectionDone
from twisted.internet.testing import StringTransport
from twisted.python.failure import Failure

from . import aegen

LOST = Failure(ConnectionDone())


def frame(msg):
    b = pickle.dumps(msg, pickle.HIGHEST_PROTOCOL)
    return struct.pack('>I', len(b)) + b


def unframe(buf):
    '''own frame parser: returns (messages, rest)'''
    out = []
    while len(buf) >= 4:
        (n,) = struct.unpack('>I', buf[:4])
        if len(buf) < 4 + n:
            break
        out.append(pickle.loads(buf[4 : 4 + n]))
        buf = buf[4 + n :]
    return out, buf


class FakeWorker:
    '''one connection to the farm port'''

    # pylint: disable=too-many-instance-attributes
    def __init__(self, sim, wid, host, rev):
        import dawgie.pl.farm as farm  # pylint: disable=import-outside-toplevel

        self.sim = sim
        self.wid = wid
        self.host = host
        self.rev = rev
        self.addr = IPv4Address('TCP', host, 40000 + wid)
        self.hand = farm.Foreman().buildProtocol(self.addr)
        self.tr = StringTransport(peerAddress=self.addr)
        self.hand.makeConnection(self.tr)
        self.buf = b''
        self.lost = False
        self.registered = False
        self.task = None  # task message held (unanswered)
        self.received = []

    def send(self, msg):
        self.hand.dataReceived(frame(msg))

    def read(self):
        data = self.tr.value()
        self.tr.clear()
        msgs, self.buf = unframe(self.buf + data)
        self.received.extend(msgs)
        return msgs

    def lose(self):
        if not self.lost:
            self.lost = True
            self.hand.connectionLost(LOST)


class Release:
    # pylint: disable=too-few-public-methods,too-many-instance-attributes
    def __init__(self, seq, tag, target, want_runid, epoch):
        self.seq = seq
        self.tag = tag
        self.target = target
        self.want_runid = want_runid  # carried run id or None (fresh)
        self.epoch = epoch  # (re)load counter
        self.state = 'released'  # -> queued -> handed -> replied -> applied | dropped
        self.worker = None
        self.msg = None
        self.outcome = None
        self.forgotten = False
        self.alloc = None  # (run id, db.next() before, max stored run, carried id) at dispatch
        self.completes = 0
        self.updates = 0
        self.purges = 0

    def key(self):
        return (self.tag, self.target)

    def brief(self):
        return [self.seq, self.tag, self.target, self.state]


class Sim:
    '''one history'''

    # pylint: disable=too-many-instance-attributes,too-many-public-methods
    def __init__(self, world, spec, targets, prerecord=(), monitors=()):
        import dawgie.db  # pylint: disable=import-outside-toplevel
        import dawgie.fe.api  # pylint: disable=import-outside-toplevel
        import dawgie.pl.farm as farm  # pylint: disable=import-outside-toplevel
        import dawgie.pl.schedule as sch  # pylint: disable=import-outside-toplevel
        import dawgie.pl.message as message  # pylint: disable=import-outside-toplevel

        self.world = world
        self.spec = spec
        self.ref = aegen.Reference(spec)
        self.farm, self.sch, self.msg, self.db, self.api = farm, sch, message, dawgie.db, dawgie.fe.api
        import dawgie.pl.logger.chronicle  # pylint: disable=import-outside-toplevel

        self.chron_mod = dawgie.pl.logger.chronicle
        self.chron_appended = []
        self.monitors = list(monitors)
        self.workers = {}
        self.releases = []
        self.seq = 0
        self.epoch = 0
        self.events = []
        self.log = []  # boundary observations, human readable
        self.last_org = {}  # tag -> runid argument of the last organize naming it
        self.bad = []  # (clause, detail)
        self.stored_runids = set()
        self.nv = 0
        self._patches = []
        self.reloads = 0
        self._nodes = None
        self._install()
        try:
            world.reset_pipeline_state()
            world.fresh_db(targets)
            self.in_build = True
            world.load_engine(spec, prerecord)
            self.in_build = False
            for m in self.monitors:
                m.start(self)
        except BaseException:
            # (construction may be interrupted by the build deadline) never leave the wrappers of a dead history behind
            self.close()
            raise

    # -- instrumentation (module attribute wrappers; restored by close()) ----
    def _install(self):
        sch, farm = self.sch, self.farm
        self._orig = {
            'next_job_batch': sch.next_job_batch,
            'organize': sch.organize,
            'complete': sch.complete,
            'update': sch.update,
            'purge': sch.purge,
            '_res': farm.Hand.__dict__['_res'],
            'chron': self.chron_mod.append,
        }
        o = self._orig
        sim = self

        def chron_append(entry):
            r = o['chron'](entry)
            sim.chron_appended.append(
                (entry.get('task'), entry.get('target'), entry.get('runid'), entry.get('status'))
            )
            return r

        self.chron_mod.append = chron_append

        def next_job_batch():
            # units released by THIS batch = targets that enter `do` now (a job whose dispatch was
            # interrupted keeps its earlier targets in `do` until the next tick)
            before = {id(j): set(j.get('do')) for j in sch.que}
            jobs = o['next_job_batch']()
            sim._on_release(jobs, before)
            return jobs

        def organize(task_names, runid=None, targets=None, event=None):
            names = list(task_names)
            sim.log.append(['organize', sorted(names), runid, sorted(targets or []), event])
            for n in names:
                sim.last_org[n] = runid
            for m in sim.monitors:
                m.on_organize(sim, names, runid, targets, event)
            return o['organize'](names, runid, targets, event)

        def complete(job, runid, target, timing, status):
            sim._on_complete(job, runid, target, status)
            return o['complete'](job, runid, target, timing, status)

        def update(values, original, rid):
            sim._on_apply('updates', original.tag, values, rid)
            return o['update'](values, original, rid)

        depth = [0]

        def purge(node, target, *a, **k):
            if depth[0] == 0:
                sim._on_apply('purges', node.tag, target, None)
            depth[0] += 1
            try:
                return o['purge'](node, target, *a, **k)
            finally:
                depth[0] -= 1

        def _res(msg):
            doing0 = {t: set(n.get('doing')) for t, n in sim.nodes().items()}
            sim.cur_rel = None
            for m in sim.monitors:
                m.before_res(sim, msg)
            try:
                return o['_res'].__func__(msg)
            finally:
                # executions the scheduler no longer remembers (ledger is ground truth)
                for r in sim.inflight():
                    if r.state != 'replied' and r.target in doing0.get(r.tag, ()):
                        n = sim.nodes().get(r.tag)
                        if n is not None and r.target not in n.get('doing'):
                            r.forgotten = True
                for m in sim.monitors:
                    m.after_res(sim, msg)

        orig_rerunid = farm.rerunid

        def rerunid(job):
            if getattr(sim, 'fail_next_runid', 0) and job.get('runid', None) is None:
                # the database refuses this run-id allocation (injected, see ev_dispatch)
                sim.fail_next_runid -= 1
                raise RuntimeError('db.next() failure injected by vf')
            nxt = None
            try:
                nxt = sim.db.next()
            except Exception:  # pylint: disable=broad-exception-caught
                pass
            rid = orig_rerunid(job)
            # what the triggering event carried is what the last organize() naming the node was given
            # (observed at that boundary, not read back from the node: the node is what is being checked)
            info = (rid, nxt, max(sim.stored_runids) if sim.stored_runids else 0, sim.last_org.get(job.tag))
            # the allocation belongs to the units of this job released by the current dispatch
            for r in sim.releases:
                if r.tag == job.tag and r.state == 'released' and r.alloc is None:
                    r.alloc = info
            return rid

        self._orig['rerunid'] = orig_rerunid
        farm.rerunid = rerunid
        sch.next_job_batch = next_job_batch
        sch.organize = organize
        sch.complete = complete
        sch.update = update
        sch.purge = purge
        farm.Hand._res = staticmethod(_res)  # pylint: disable=protected-access
        sch.promote.organize = organize

    def patch(self, obj, name, new):
        '''monitor-installed wrapper, restored by close()'''
        self._patches.append((obj, name, obj.__dict__[name] if isinstance(obj, type) else getattr(obj, name)))
        setattr(obj, name, new)

    def close(self):
        for obj, name, orig in reversed(self._patches):
            setattr(obj, name, orig)
        self._patches = []
        sch, farm, o = self.sch, self.farm, self._orig
        sch.next_job_batch = o['next_job_batch']
        sch.organize = o['organize']
        sch.complete = o['complete']
        sch.update = o['update']
        sch.purge = o['purge']
        farm.Hand._res = o['_res']  # pylint: disable=protected-access
        farm.rerunid = o['rerunid']
        self.chron_mod.append = o['chron']
        for w in self.workers.values():
            w.lost = True

    # -- observations ----------------------------------------------------------
    def nodes(self):
        '''tag -> algorithm node of the current graph (own traversal)'''
        ae = self.sch.ae
        if self._nodes is None or self._nodes[0] is not ae:
            found, stack, seen = {}, list(ae.at), set()
            while stack:
                n = stack.pop()
                if id(n) in seen:
                    continue
                seen.add(id(n))
                found.setdefault(n.tag, n)
                stack.extend(list(n))
            self._nodes = (ae, found)
        return self._nodes[1]

    def snapshot(self):
        return {
            t: (frozenset(n.get('todo')), frozenset(n.get('doing')), frozenset(n.get('do')))
            for t, n in self.nodes().items()
        }

    def inflight(self):
        '''ledger ground truth: released (this epoch) and not yet applied/dropped'''
        return [
            r for r in self.releases
            if r.state in ('released', 'queued', 'handed', 'replied') and not getattr(r, 'stale', False)
        ]

    def inflight_keys(self):
        return {r.key() for r in self.inflight()}

    def targets(self):
        return list(self.db.targets())

    def violation(self, clause, detail, mech=None):
        self.bad.append((clause, detail, mech))

    def _on_release(self, jobs, before=None):
        batch = []
        for job in jobs:
            for t in sorted(set(job.get('do')) - (before or {}).get(id(job), set())):
                self.seq += 1
                r = Release(self.seq, job.tag, t, self.last_org.get(job.tag), self.epoch)
                self.releases.append(r)
                batch.append(r)
        if batch:
            self.log.append(['release', [r.brief()[:3] for r in batch]])
        for m in self.monitors:
            m.on_release(self, batch)

    def _on_complete(self, job, runid, target, status):
        cand = [r for r in self.releases if r.key() == (job.tag, target) and r.state == 'replied']
        self.cur_rel = cand[0] if cand else None
        if cand:
            cand[0].completes += 1
            cand[0].applied_status = status.name
            cand[0].state = 'applied'
        self.log.append(['complete', job.tag, target, runid, status.name])
        for m in self.monitors:
            m.on_complete(self, job, runid, target, status, cand[0] if cand else None)

    def _on_apply(self, what, tag, arg, _rid):
        r = getattr(self, 'cur_rel', None)
        if r is not None and r.tag == tag and (what != 'purges' or r.target == arg):
            setattr(r, what, getattr(r, what) + 1)
        self.log.append([what, tag, arg if what == 'purges' else len(arg or [])])

    # -- chronicle ---------------------------------------------------------------
    def chronicle_entries(self):
        out = []
        base = os.path.join(self.world.ctx.data_dbs, 'chronicles')
        for fn in glob.glob(os.path.join(base, '*', '*', '*', '*.json')):
            with open(fn, 'rt', encoding='utf-8') as f:
                out.extend(json.load(f))
        return out

    # -- worker side ---------------------------------------------------------------
    def pump(self):
        '''what the reactor would do next: read worker sockets, close what
        the server asked to close'''
        Type = self.msg.Type
        for w in list(self.workers.values()):
            if w.lost:
                continue
            for m in w.read():
                if m.type == Type.task:
                    self._on_handed(w, m)
                elif m.type == Type.response and not m.success:
                    w.told_to_leave = True
            if w.tr.disconnecting or w.task is not None and not w.closed_after_task:
                # server closed, or the worker got its task and closed the socket
                w.closed_after_task = True
                w.lose()

    def _on_handed(self, w, m):
        target = m.target if m.target else '__all__'
        cand = [
            r for r in self.releases
            if r.key() == (m.jobid, target) and r.state in ('released', 'queued') and r.msg is None
        ]
        # several units of one (job, target) can sit in the queue (see known_findings): the run id tells them apart
        exact = [r for r in cand if r.alloc is not None and r.alloc[0] == m.runid]
        rel = exact[0] if exact else (cand[0] if cand else None)
        if rel is not None:
            rel.state = 'handed'
            rel.worker = w.wid
            rel.msg = m
        already = w.task is not None
        w.task = m
        w.rel = rel
        w.closed_after_task = False
        self.log.append(['handed', w.wid, m.jobid, target, m.runid])
        for mon in self.monitors:
            mon.on_handed(self, w, m, rel, already)

    # -- events -----------------------------------------------------------------------
    def apply(self, ev):
        self.events.append(ev)
        for m in self.monitors:
            m.before_event(self, ev)
        getattr(self, 'ev_' + ev['op'])(ev)
        self.background()
        self.pump()
        self._sync_queued()
        for m in self.monitors:
            m.after_event(self, ev)

    def background(self):
        '''background steps (idle archive ...) run to completion right away,
        as their threads would within moments'''
        rx = self.world.reactor
        guard = 0
        while rx.parked and guard < 20:
            p = rx.parked.pop(0)
            self.log.append(['background', p.name])
            p.complete()
            guard += 1

    def _sync_queued(self):
        # units whose task message sits in the farm queues
        queued = {}
        for m in list(self.farm._cluster) + list(self.farm._cloud):  # pylint: disable=protected-access
            k = (m.jobid, m.target if m.target else '__all__')
            queued[k] = queued.get(k, 0) + 1
        held = {j.tag: set(j.get('do')) for j in self.farm._jobs}  # pylint: disable=protected-access
        for r in self.releases:
            # a message accounts for one release only (two releases of one unit can coexist: known finding)
            if r.state == 'queued' and queued.get(r.key(), 0) > 0:
                queued[r.key()] -= 1
        for r in self.releases:
            if r.state == 'released' and queued.get(r.key(), 0) > 0:
                queued[r.key()] -= 1
                r.state = 'queued'
            # a job whose dispatch was interrupted waits in farm._jobs with its targets still in `do`
            r.in_jobs = r.state == 'released' and r.target in held.get(r.tag, ())

    def ev_run(self, ev):
        self.api.cmd_run(list(ev['names']), list(ev['targets']))

    def ev_organize(self, ev):
        # a "new data"/other internal event carrying a run id
        self.sch.organize(list(ev['names']), ev.get('runid'), set(ev['targets']), ev.get('event', 'vf'))

    def ev_add_target(self, ev):
        self.db.add(ev['name'])

    def ev_dispatch(self, ev):
        if ev.get('fault') == 'db.next':
            # the database refuses one run-id allocation during this tick (dispatch anticipates that)
            self.fail_next_runid = 1
            try:
                self.farm.dispatch()
            finally:
                self.fail_next_runid = 0
            return
        self.farm.dispatch()

    def ev_connect(self, ev):
        w = FakeWorker(self, ev['w'], ev['host'], ev['rev'])
        w.told_to_leave = False
        w.closed_after_task = True
        w.rel = None
        self.workers[ev['w']] = w
        rev = self.world.ctx.git_rev if ev['rev'] == 'good' else 'stale-' + str(ev['w'])
        w.sent_rev = rev
        w.send(self.msg.make(typ=self.msg.Type.register, inc=ev.get('inc', ev['w']), rev=rev))
        w.registered = True
        for m in self.monitors:
            m.on_register(self, w)

    def ev_disconnect(self, ev):
        w = self.workers[ev['w']]
        w.lose()

    def ev_status(self, ev):
        # the abort poll a busy worker makes on a fresh connection
        w = self.workers[ev['w']]
        return self._status_poll(w)

    def _status_poll(self, w):
        c = FakeWorker(self, 10000 + len(self.events), w.host, w.rev)
        c.send(self.msg.make(typ=self.msg.Type.status, rev=w.sent_rev))
        msgs = c.read()
        c.lose()
        ok = bool(msgs) and msgs[0].type == self.msg.Type.response and bool(msgs[0].success)
        for m in self.monitors:
            m.on_status(self, w, ok, c)
        return ok

    def make_values(self, rel, flags):
        '''(value name, isnew) list as worker.Context.run returns it'''
        alg = self.ref.algs[rel.tag]
        runid = rel.msg.runid
        out = []
        i = 0
        for sv in alg['svs']:
            for v in sv['vals']:
                out.append((f'{runid}.{rel.target}.{rel.tag}.{sv["name"]}.{v["name"]}', bool(flags[i % len(flags)]) if flags else False))
                i += 1
        out.append((f'{runid}.{rel.target}.{rel.tag}.__metric__.task_wall', True))
        return out

    def ev_reply(self, ev):
        w = self.workers[ev['w']]
        rel, task = w.rel, w.task
        # worker.cluster.execute: connect, poll status on another connection,
        # send the response only when not told to abort
        c = FakeWorker(self, 20000 + len(self.events), w.host, w.rev)
        proceed = self._status_poll(w)
        suc = {'success': True, 'failure': False, 'invalid': None}[ev['outcome']]
        values = None
        real = bool(ev.get('real')) and getattr(self, 'exec', None) is not None
        if suc:
            if rel is not None and real:
                # the unit really runs: real worker path, real store (C02 end to end)
                values = self.exec.run_unit(task)
            elif rel is not None and ev.get('novalues'):
                values = []
            elif rel is not None:
                values = self.make_values(rel, ev.get('new', [True]))
                for extra in ev.get('extra_values', []):
                    values.append((f'{task.runid}.{extra[0]}.{rel.tag}.{extra[1]}', True))
            else:
                values = []
        w.task = None
        if rel is not None:
            rel.outcome = ev['outcome']
            rel.values = values
            rel.state = 'replied' if proceed else 'dropped'
        if proceed:
            if suc and rel is not None and not real:
                self._store(rel, values)
            resp = self.msg.make(
                typ=self.msg.Type.response,
                inc=task.target,
                jid=task.jobid,
                rid=task.runid,
                suc=suc,
                tim=dict(task.timing or {}),
                val=values,
            )
            self.log.append(['reply', w.wid, task.jobid, task.target, ev['outcome']])
            c.send(resp)
            if rel is not None and rel.state == 'replied':
                # nothing applied it
                for m in self.monitors:
                    m.on_unapplied(self, rel)
                rel.state = 'lost'
        c.lose()
        del self.workers[ev['w']]

    def _store(self, rel, values):
        '''the worker stored its values: make the run id visible to db.next()'''
        from dawgie.db.shelve.state import DBI  # pylint: disable=import-outside-toplevel

        runid = rel.msg.runid
        self.nv += 1
        DBI().tables.prime[str((int(runid), 0, 0, 0, 0, self.nv))] = 'x'
        self.stored_runids.add(int(runid))

    def ev_salt(self, ev):
        '''(end to end) the next run of a root writes never-seen content for these values'''
        for svn, vn in ev['vals']:
            k = (ev['tag'], svn, vn, ev['target'])
            self.exec.salt[k] = self.exec.salt.get(k, 0) + 1

    def ev_advance(self, ev):
        self.world.reactor.advance(ev['dt'])

    def ev_lifecycle(self, ev):
        getattr(self.world.fsm, ev['to'] + '_trigger')()

    def ev_reload(self, ev):
        '''the real update path with its background steps run in order'''
        world, fsm, rx = self.world, self.world.fsm, self.world.reactor
        ctx = world.ctx
        newrev = ev['rev']
        newspec = ev['spec']
        orig_rev = ctx._rev  # pylint: disable=protected-access
        ctx._rev = lambda: newrev  # pylint: disable=protected-access

        class _TM:  # the importer rollback: module reload is done by aegen.load
            def reload(self):
                return None

        fsm.time_machine = _TM()
        aegen.prepare(newspec, world.aeroot)
        self.in_build = True
        self.last_org = {}  # the reload creates new nodes: nothing carries a run id until organize says so
        try:
            fsm.wait_for_nothing()  # what cmd_reset / a NOW submission do
            guard = 0
            while rx.parked and guard < 10:
                rx.parked.pop(0).complete()
                self.pump()
                guard += 1
        finally:
            ctx._rev = orig_rev  # pylint: disable=protected-access
            self.in_build = False
        self.spec = newspec
        self.ref = aegen.Reference(newspec)
        self.epoch += 1
        self._nodes = None
        for r in self.releases:
            if r.state in ('released', 'queued'):
                r.state = 'cleared'  # farm.clear() emptied the queues at load: never handed
            if r.state in ('cleared', 'handed'):
                r.stale = True
        for m in self.monitors:
            m.on_reload(self)


class Monitor:
    '''base: every hook is optional'''

    # pylint: disable=unused-argument,too-many-arguments,too-many-positional-arguments
    def start(self, sim):
        pass

    def on_organize(self, sim, names, runid, targets, event):
        pass

    def on_release(self, sim, batch):
        pass

    def on_handed(self, sim, worker, msg, rel, already):
        pass

    def on_register(self, sim, worker):
        pass

    def on_status(self, sim, worker, ok, conn):
        pass

    def before_res(self, sim, msg):
        pass

    def after_res(self, sim, msg):
        pass

    def on_complete(self, sim, job, runid, target, status, rel):
        pass

    def on_unapplied(self, sim, rel):
        pass

    def on_reload(self, sim):
        pass

    def after_event(self, sim, ev):
        pass

    def before_event(self, sim, ev):
        pass

    def finish(self, sim, res, shape):
        pass


# ---------------------------------------------------------------------------
# workload generation (adaptive: looks at the simulation to pick legal events)
class Driver:
    '''random event source; every choice goes through rng so a history is
    reproducible from (spec, targets, events)'''

    def __init__(self, rng, sim, profile):
        self.rng = rng
        self.sim = sim
        self.p = profile
        self.next_wid = 0
        self.next_target = 0

    def idle_workers(self):
        return [w for w in self.sim.workers.values() if not w.lost and w.task is None and w.registered]

    def busy_workers(self):
        return [w for w in self.sim.workers.values() if w.task is not None]

    def pick(self):
        # pylint: disable=too-many-return-statements,too-many-branches
        rng, sim, p = self.rng, self.sim, self.p
        busy = self.busy_workers()
        ops = []
        w = p['weights']
        ops += [('reply', w['reply'])] if busy else []
        ops += [('dispatch', w['dispatch'])]
        ops += [('connect', w['connect'] * (3 if not self.idle_workers() else 1))]
        ops += [('run', w['run'])]
        ops += [('rerun_inflight', w.get('rerun_inflight', 0))] if sim.inflight() else []
        ops += [('add_target', w.get('add_target', 0))]
        ops += [('disconnect', w.get('disconnect', 0))] if self.idle_workers() else []
        ops += [('status', w.get('status', 0))] if busy else []
        ops += [('advance', w.get('advance', 0))]
        ops += [('organize', w.get('organize', 0))]
        ops += [('lifecycle', w.get('lifecycle', 0))]
        ops += [('reload', w.get('reload', 0))] if sim.world.fsm.state == 'running' else []
        total = sum(x for _o, x in ops)
        r = rng.random() * total
        for op, x in ops:
            r -= x
            if r < 0:
                break
        tags = sim.ref.order
        targets = sim.targets()
        if op == 'reply':
            wk = rng.choice(sorted(busy, key=lambda k: k.wid))
            x = rng.random()
            outcome = 'failure' if x < p['p_fail'] else ('invalid' if x < p['p_fail'] + p['p_invalid'] else 'success')
            ev = {'op': 'reply', 'w': wk.wid, 'outcome': outcome}
            if outcome == 'success':
                mode = rng.random()
                nvals = sum(len(sv['vals']) for sv in sim.ref.algs[wk.task.jobid]['svs']) if wk.task.jobid in sim.ref.algs else 1
                if mode < 0.03:
                    # the run stored nothing at all (the foreman logs 'did not update its state vector')
                    ev['novalues'] = True
                elif mode < 0.3:
                    ev['new'] = [True]
                elif mode < 0.45:
                    ev['new'] = [False]
                else:
                    ev['new'] = [rng.random() < 0.5 for _ in range(nvals)]
            return ev
        if op == 'dispatch':
            if rng.random() < p.get('p_dbfault', 0.0):
                return {'op': 'dispatch', 'fault': 'db.next'}
            return {'op': 'dispatch'}
        if op == 'connect':
            self.next_wid += 1
            return {
                'op': 'connect',
                'w': self.next_wid,
                'host': rng.choice(p.get('hosts', ['10.0.0.1', '10.0.0.2'])),
                'rev': 'stale' if rng.random() < p.get('p_stale', 0.0) else 'good',
                'inc': rng.choice([0, 0, 1, 2, 7]),  # a worker's first start is incarnation 0
            }
        if op == 'run':
            names = rng.sample(tags, rng.randint(1, min(3, len(tags))))
            x = rng.random()
            if x < 0.15 or not targets:
                tg = ['__all__']
            elif x < 0.2:
                tg = ['nosuchtarget']
            else:
                tg = rng.sample(targets, rng.randint(1, min(2, len(targets))))
            return {'op': 'run', 'names': names, 'targets': tg}
        if op == 'rerun_inflight':
            r = rng.choice(sim.inflight())
            return {'op': 'run', 'names': [r.tag], 'targets': [r.target]}
        if op == 'add_target':
            self.next_target += 1
            return {'op': 'add_target', 'name': f'N{self.next_target}'}
        if op == 'disconnect':
            return {'op': 'disconnect', 'w': rng.choice(sorted(x.wid for x in self.idle_workers()))}
        if op == 'status':
            return {'op': 'status', 'w': rng.choice(sorted(x.wid for x in busy))}
        if op == 'advance':
            return {'op': 'advance', 'dt': rng.choice([1, 5, 60, 3600, 86400, 3 * 86400])}
        if op == 'lifecycle':
            st = sim.world.fsm.state
            if st == 'running':
                return {'op': 'lifecycle', 'to': 'gitting'}
            if st == 'gitting':
                return {'op': 'lifecycle', 'to': 'running'}
            return {'op': 'dispatch'}
        if op == 'reload':
            import copy  # pylint: disable=import-outside-toplevel

            sim.reloads += 1
            new = copy.deepcopy(sim.spec)
            new['pkg'] = sim.spec['pkg'].split('_r')[0] + f'_r{sim.reloads}'
            if rng.random() < 0.5:
                # a software update bumps some versions
                for tk in new['tasks']:
                    for a in tk['algs']:
                        if rng.random() < 0.3:
                            a['ver'] = [a['ver'][0], a['ver'][1] + 1, 0]
            return {'op': 'reload', 'rev': f'rev{sim.reloads}', 'spec': new}
        if op == 'organize':
            names = rng.sample(tags, 1)
            tg = rng.sample(targets, 1) if targets else ['__all__']
            return {'op': 'organize', 'names': names, 'targets': tg, 'runid': rng.randint(1, 5)}
        return {'op': 'dispatch'}


DEFAULT_PROFILE = {
    'weights': {
        'reply': 5, 'dispatch': 4, 'connect': 3, 'run': 1.2, 'rerun_inflight': 0.6,
        'add_target': 0.15, 'disconnect': 0.2, 'status': 0.2, 'advance': 0.25, 'organize': 0.3,
        'reload': 0.04,
    },
    'p_fail': 0.12,
    'p_invalid': 0.08,
    'p_stale': 0.0,
}


def drain(sim, max_rounds, outcome='success', new=(True,)):
    '''external events stopped: dispatch; every worker answers; repeat.

    returns the number of rounds used, or None if not quiescent after max_rounds
    '''
    # (worker ids are never reused within a history: a reused id would replace the FakeWorker of a connection
    # the farm still knows)
    wid = getattr(sim, 'drain_wid', 900000)
    for rnd in range(max_rounds):
        sim.drain_wid = wid
        if not sim.inflight() and not any(n.get('todo') for n in sim.nodes().values()):
            return rnd
        # enough workers for everything queued
        need = len(sim.farm._cluster) + 4  # pylint: disable=protected-access
        idle = [w for w in sim.workers.values() if not w.lost and w.task is None]
        for _ in range(max(0, need - len(idle))):
            wid += 1
            sim.apply({'op': 'connect', 'w': wid, 'host': 'drain', 'rev': 'good'})
        sim.apply({'op': 'dispatch'})
        for w in sorted([w for w in sim.workers.values() if w.task is not None], key=lambda k: k.wid):
            sim.apply({'op': 'reply', 'w': w.wid, 'outcome': outcome, 'new': list(new)})
    sim.drain_wid = wid
    if not sim.inflight() and not any(n.get('todo') for n in sim.nodes().values()):
        return max_rounds
    return None
