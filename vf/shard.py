'''child process: run one shard (or replay one witness) of a property'''

import argparse
import faulthandler
import importlib
import json
import sys
import traceback

from . import boot


def _coverage():
    '''blind-spot audit only (tools/covaudit.sh): VERIF_COVERAGE=<dir> records which lines of the tree ran'''
    import os  # pylint: disable=import-outside-toplevel

    d = os.environ.get('VERIF_COVERAGE')
    if not d:
        return None
    import coverage  # pylint: disable=import-outside-toplevel

    cov = coverage.Coverage(
        data_file=os.path.join(d, 'cov'), data_suffix=True, include=[os.path.join(boot.REPO, 'Python', 'dawgie', '*')]
    )
    cov.start()
    return cov


def main():
    ap = argparse.ArgumentParser()
    ap.add_argument('pid')
    ap.add_argument('--spec')
    ap.add_argument('--replay')
    ap.add_argument('--out', required=True)
    args = ap.parse_args()
    faulthandler.enable()
    cov = _coverage()
    mod = importlib.import_module('vf.props.' + args.pid.lower())
    try:
        if args.replay:
            with open(args.replay, 'rt', encoding='utf-8') as f:
                rec = json.load(f)
            if isinstance(rec['witness'], dict) and rec['witness'].get('_rerun_shard'):
                # a violation that only shows with the process history of its shard: run that shard again
                # (same seed, generous budget) and keep what it reports for this mechanism
                spec = dict(rec['witness']['_rerun_shard'])
                res = mod.run_shard(spec)
                res = res.as_dict() if hasattr(res, 'as_dict') else res
                res['violations'] = [
                    v for v in res.get('violations', [])
                    if (v.get('mechanism') or ('unclassified/' + v.get('clause', '?'))) == rec.get('mechanism')
                ]
            else:
                res = mod.replay(rec['witness'])
        else:
            with open(args.spec, 'rt', encoding='utf-8') as f:
                spec = json.load(f)
            res = mod.run_shard(spec)
        res = res.as_dict() if hasattr(res, 'as_dict') else res
    except boot.WrongTree as e:
        res = {'inconclusive': [f'wrong-tree: {e}']}
    except BaseException:  # pylint: disable=broad-exception-caught
        res = {'inconclusive': ['harness crashed: ' + traceback.format_exc()[-3000:]]}
    finally:
        boot.cleanup()
        if cov:
            cov.stop()
            cov.save()
    with open(args.out, 'wt', encoding='utf-8') as f:
        json.dump(res, f, default=str)
    return 0


if __name__ == '__main__':
    sys.exit(main())
