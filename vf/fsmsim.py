'''life-cycle simulator: a real dawgie.pl.state.FSM (non doctest) with only its
leaf I/O replaced, background steps parked on the virtual reactor and released
by the workload.  Shared by C10 and C12.
'''

import os

# the documented machine (pl/state.dot at the pinned commit), kept here so that
# an edit of the dot file shows up as a difference
EDGES = {
    ('starting', 'starting_trigger', 'loading'),
    ('loading', 'contemplation_trigger', 'contemplation'),
    ('contemplation', 'running_trigger', 'running'),
    ('running', 'gitting_trigger', 'gitting'),
    ('gitting', 'running_trigger', 'running'),
    ('running', 'archiving_trigger', 'archiving'),
    ('archiving', 'running_trigger', 'running'),
    ('running', 'update_trigger', 'updating'),
    ('updating', 'loading_trigger', 'loading'),
    ('updating', 'archiving_trigger', 'archiving'),
    ('archiving', 'updating_trigger', 'updating'),
}
TRIGGERS = sorted({e[1] for e in EDGES})
PAIRS = {(s, d) for s, _t, d in EDGES}
REST = ('running', 'gitting')


class FakeRequest:
    def __init__(self):
        self.written = []
        self.finished = False

    def write(self, b):
        self.written.append(b)

    def finish(self):
        self.finished = True


class FsmSim:
    '''one FSM + the stubs around it'''

    # pylint: disable=too-many-instance-attributes
    def __init__(self, world):
        import dawgie.context as ctx  # pylint: disable=import-outside-toplevel
        import dawgie.pl.farm as farm  # pylint: disable=import-outside-toplevel
        import dawgie.pl.schedule as sch  # pylint: disable=import-outside-toplevel
        import dawgie.pl.state as state  # pylint: disable=import-outside-toplevel
        import dawgie.tools.submit as tsubmit  # pylint: disable=import-outside-toplevel

        self.world, self.ctx, self.farm, self.sch, self.state_mod, self.tsubmit = world, ctx, farm, sch, state, tsubmit
        self.rx = world.reactor
        self.Status = state.Status
        self.transitions = []  # (source, dest) in the order they happened
        self.calls = []
        self.fsm = None
        self.pipeline_runs = 0
        self.reload_runs = 0
        self.pipeline_fails = False
        # a git work tree above the AE (Process.__init__ walks up to it)
        os.makedirs(os.path.join(world.root, '.git'), exist_ok=True)
        ctx.ae_base_path = world.aeroot
        self._saved = {
            'plow': farm.plow, 'already_applied': tsubmit.already_applied, 'automatic': tsubmit.automatic, 'mail_out': tsubmit.mail_out,
            '_rev': ctx._rev,  # pylint: disable=protected-access
        }
        farm.plow = lambda: None
        tsubmit.already_applied = lambda changeset, repo: False
        tsubmit.mail_out = lambda msg: None
        self.automatic_ok = True
        self.spawned = []
        self.requests = []

        def automatic(**k):
            # the git steps succeed or fail as the workload says; on success the compliance check is
            # spawned through the caller's VerifyHandler exactly as tools.submit.auto_merge_compliant does
            if not self.automatic_ok:
                return tsubmit.State.FAILED
            k['spawn'](['python3', '-m', 'dawgie.tools.compliant'])
            return tsubmit.State.SUCCESS

        tsubmit.automatic = automatic
        self.rx.spawnProcess = lambda handler, *a, **k: self.spawned.append(handler)
        self.rev = 0
        ctx._rev = lambda: f'rev{self.rev}'  # pylint: disable=protected-access

        class TimeMachine:
            '''stands in for RollbackImporter (which hooks builtins.__import__ once per boot)'''

            def reload(self):
                return None

        self._saved['RollbackImporter'] = state.RollbackImporter
        state.RollbackImporter = TimeMachine

    def close(self):
        self.farm.plow = self._saved['plow']
        self.tsubmit.already_applied = self._saved['already_applied']
        self.tsubmit.automatic = self._saved['automatic']
        self.tsubmit.mail_out = self._saved['mail_out']
        self.ctx._rev = self._saved['_rev']  # pylint: disable=protected-access
        self.state_mod.RollbackImporter = self._saved['RollbackImporter']

    def new_fsm(self, at_rest=False):
        '''fresh machine in `starting` (or placed at rest in running)'''
        state = self.state_mod
        self.rx.reset()
        self.rx.mode = 'controlled'
        self.farm.clear()
        self.farm.ARCHIVE = False
        self.sch.que = []
        self.requests = []
        fsm = state.FSM()
        sim = self
        fsm._security = lambda: None  # pylint: disable=protected-access
        fsm._gui = lambda: None  # pylint: disable=protected-access
        fsm._logging = lambda: None  # pylint: disable=protected-access

        def _pipeline(*_a, **_k):
            sim.pipeline_runs += 1
            if sim.pipeline_fails:
                raise RuntimeError('load failure injected by vf')
            import dawgie.db  # pylint: disable=import-outside-toplevel

            dawgie.db.open()

        def _reload(*_a, **_k):
            sim.reload_runs += 1
            import dawgie.db  # pylint: disable=import-outside-toplevel

            dawgie.db.close()
            sim.ctx.git_rev = sim.ctx._rev()  # pylint: disable=protected-access

        fsm._pipeline = _pipeline  # pylint: disable=protected-access
        fsm._reload = _reload  # pylint: disable=protected-access
        self.transitions = []
        orig_set_state = fsm.machine.set_state

        def set_state(state, model=None):
            # the instant of the change (callbacks of the transition may fire further triggers)
            src = fsm.state
            r = orig_set_state(state, model)
            self.transitions.append((src, fsm.state))
            return r

        fsm.machine.set_state = set_state
        self.ctx.fsm = fsm
        self.fsm = fsm
        if at_rest:
            orig_set_state('running')
            fsm.time_machine = None
        return fsm

    # -- observations ------------------------------------------------------
    def snapshot(self):
        f = self.fsm
        return (
            f.state, f.transitioning, getattr(f, '_FSM__prior'), f.priority, f.changeset,
            f.wait_on_crew.is_set(), f.wait_on_doing.is_set(), f.wait_on_todo.is_set(),
            self.farm.ARCHIVE, len(self.rx.parked), self.pipeline_runs, self.reload_runs,
        )

    def outstanding(self):
        return [p.name for p in self.rx.parked]

    def at_rest(self):
        return not self.rx.parked and not self.rx.from_thread

    def drain_reactor(self):
        '''callLater(0, ...) style continuations'''
        for _ in range(20):
            calls = [c for c in self.rx.getDelayedCalls() if c.active() and c.getTime() <= self.rx.seconds()]
            if not calls:
                break
            self.rx.advance(0)

    # -- wired entry points ---------------------------------------------------
    def submit(self, priority, ok=True, api=False):
        '''what POST /app/submit does: fe.submit.Process.step_0() and its continuations'''
        if api:
            import dawgie.fe.api.submit as mod  # pylint: disable=import-outside-toplevel
        else:
            import dawgie.fe.submit as mod  # pylint: disable=import-outside-toplevel
        self.automatic_ok = ok
        self.rev += 1
        req = FakeRequest()
        cleared = []
        proc = mod.Process(f'changeset{self.rev}', lambda: cleared.append(1), req, priority)
        req.cleared = cleared
        req.what = (priority, ok, api)
        self.requests.append(req)
        proc.step_0()
        self.drain_reactor()
        # the spawned compliance process ends (successfully): VerifyHandler.processEnded
        from twisted.internet.error import ProcessDone  # pylint: disable=import-outside-toplevel
        from twisted.python.failure import Failure  # pylint: disable=import-outside-toplevel

        while self.spawned:
            self.spawned.pop(0).processEnded(Failure(ProcessDone(0)))
            self.drain_reactor()
        return req

    def dispatch(self):
        self.farm.dispatch()


# ---------------------------------------------------------------------------
# cooperative pollers (C12): the three submit waiters are loops of the form
#     while <condition>: time.sleep(0.2)
# run by deferToThread.  Here time.sleep inside dawgie.pl.state raises Pause, so
# one call of the poller function is exactly one evaluation round of its loop: it
# either returns (the thread would finish) or pauses (the thread would sleep and
# evaluate again).  The workload decides when each poller gets a tick and when the
# result of a finished poller is delivered to the reactor side.
class Pause(Exception):
    pass


class Poller:
    # pylint: disable=too-few-public-methods
    def __init__(self, func, args, kwds):
        import twisted.internet.defer  # pylint: disable=import-outside-toplevel

        self.func, self.args, self.kwds = func, args, kwds
        self.name = getattr(func, '__name__', repr(func))
        self.deferred = twisted.internet.defer.Deferred()
        self.finished = False
        self.delivered = False
        self.ticks = 0
        self.result = None

    def tick(self):
        '''one evaluation round; True when the poller function returned'''
        if self.finished:
            return True
        self.ticks += 1
        try:
            self.result = self.func(*self.args, **self.kwds)
            self.finished = True
        except Pause:
            pass
        except BaseException:  # pylint: disable=broad-exception-caught
            from twisted.python import failure  # pylint: disable=import-outside-toplevel

            self.result = failure.Failure()
            self.finished = True
        return self.finished

    def deliver(self):
        if self.finished and not self.delivered:
            self.delivered = True
            self.deferred.callback(self.result)


POLLERS = ('is_crew_done', 'is_doing_done', 'is_todo_done')


def install_pollers(sim):
    '''route the waiter pollers to Poller objects; everything else stays parked'''
    import types  # pylint: disable=import-outside-toplevel
    import twisted.internet.threads  # pylint: disable=import-outside-toplevel

    rx = sim.rx
    sim.pollers = []
    orig = rx.defer_to_thread

    def defer_to_thread(func, *args, **kwds):
        if getattr(func, '__name__', '') in POLLERS:
            p = Poller(func, args, kwds)
            sim.pollers.append(p)
            return p.deferred
        return orig(func, *args, **kwds)

    twisted.internet.threads.deferToThread = defer_to_thread

    def sleep(_s):
        raise Pause()

    sim.state_mod.time = types.SimpleNamespace(sleep=sleep)
    return defer_to_thread
