'''seeded generator of algorithm engines + independent reference graph

An engine *spec* is plain JSON (so it can live inside a witness):

  {'pkg': 'ae_ab12', 'style': 'new'|'old',
   'tasks': [{'name': 'tk0', 'algs': [ALG, ...]}, ...]}
  ALG = {'name', 'kind': 'task'|'analysis'|'regress', 'ver': [d,i,b],
         'svs': [{'name','ver','vals':[{'name','ver'}]}],
         'inputs': [REF], 'feedback': [REF], 'events': [EV], 'where': str}
  REF = {'level': 'alg'|'sv'|'v', 'tk', 'alg', 'sv'?, 'v'?}
  EV  = {'boot': True} | {'dow': n, 'time': [h,m,s]} | {'dom': n, 'time':..}
        | {'day': [y,m,d], 'time': ..}

`write()` materialises the spec as a real Python package (new auto-registered
style or the deprecated factory/bot style).  `Reference` is the model: ~40 lines
of set code that never looks at dawgie.pl.dag.
'''

import os

KINDS = ('task', 'analysis', 'regress')
FACTORY_OF = {'task': 'task', 'analysis': 'analysis', 'regress': 'regress'}
BASE_OF = {'task': 'Algorithm', 'analysis': 'Analyzer', 'regress': 'Regression'}
DEPS_OF = {'task': 'previous', 'analysis': 'traits', 'regress': 'variables'}

NAME_POOLS = {
    'alg': ['a', 'a2', 'a_x', 'alg', 'alg2', 'algo', 'b', 'ab', 'abc', 'x', 'x1', 'x10'],
    'sv': ['sv', 'sv1', 'sv_2', 's', 'state', 'state2', 'st'],
    'v': ['v', 'val', 'v1', 'v10', 'value', 'val_2', 'w'],
}


# ---------------------------------------------------------------------------
# generation
def generate(rng, n_algs=6, **opt):
    '''random acyclic engine spec

    opt: style, p_analysis, p_regress, p_feedback, p_event, max_tasks,
         max_svs, max_vals, p_edge, pkg
    '''
    # pylint: disable=too-many-locals,too-many-branches
    style = opt.get('style') or rng.choice(['new', 'old'])
    n_tasks = rng.randint(1, max(1, min(opt.get('max_tasks', 4), n_algs)))
    tasks = [{'name': f'tk{i}', 'algs': []} for i in range(n_tasks)]
    order = []  # (tk, alg) in creation order == a topological order
    shape = opt.get('shape') or rng.choice(['random', 'chain', 'diamond', 'fan', 'random', 'deep'])
    p_edge = opt.get('p_edge', rng.choice([0.25, 0.4, 0.6]))
    for i in range(n_algs):
        tk = rng.choice(tasks)
        r = rng.random()
        pa, pr = opt.get('p_analysis', 0.2), opt.get('p_regress', 0.12)
        kind = 'analysis' if r < pa else ('regress' if r < pa + pr else 'task')
        used = {a['name'] for a in tk['algs']}
        pool = [n for n in NAME_POOLS['alg'] if n not in used]
        name = rng.choice(pool) if pool and rng.random() < 0.7 else f'n{i}'
        alg = {
            'name': name,
            'kind': kind,
            'ver': _ver(rng),
            'svs': [],
            'inputs': [],
            'feedback': [],
            'events': [],
            'where': rng.choice(['auto', 'auto', 'cluster', 'cloud']),
        }
        svn = rng.sample(NAME_POOLS['sv'], rng.randint(1, opt.get('max_svs', 3)))
        for s in svn:
            vn = rng.sample(NAME_POOLS['v'], rng.randint(1, opt.get('max_vals', 3)))
            alg['svs'].append(
                {
                    'name': s,
                    'ver': _ver(rng),
                    'vals': [{'name': v, 'ver': _ver(rng)} for v in vn],
                }
            )
        # inputs from earlier algorithms only => acyclic by construction
        if order:
            if shape == 'chain':
                parents = [order[-1]]
            elif shape == 'deep':
                parents = [order[-1]] + [p for p in order[:-1] if rng.random() < 0.15]
            elif shape == 'diamond':
                parents = order[-2:] if i % 3 == 0 else [order[0]]
            elif shape == 'fan':
                parents = [order[0]] if i % 2 else [p for p in order if rng.random() < 0.5]
            else:
                parents = [p for p in order if rng.random() < p_edge]
            if i == 0:
                parents = []
            for ptk, palg in parents:
                alg['inputs'].extend(_refs_to(rng, ptk, palg, kind))
        tk['algs'].append(alg)
        order.append((tk, alg))
    # feedback: an earlier algorithm reads a value of a later one (never an edge)
    if rng.random() < opt.get('p_feedback', 0.3) and len(order) > 1:
        for _ in range(rng.randint(1, 2)):
            i = rng.randrange(0, len(order) - 1)
            j = rng.randrange(i + 1, len(order))
            ftk, falg = order[j]
            for ref in _refs_to(rng, ftk, falg, 'analysis')[:1]:  # sv / v level only
                order[i][1]['feedback'].append(ref)
    if rng.random() < opt.get('p_event', 0.3):
        for _ in range(rng.randint(1, 2)):
            _tk, alg = rng.choice(order)
            alg['events'].append(gen_event(rng))
    spec = {
        'pkg': opt.get('pkg', 'ae_' + '%08x' % rng.getrandbits(32)),
        'style': style,
        'tasks': [t for t in tasks if t['algs']],
    }
    return spec


def gen_event(rng):
    t = [rng.choice([0, 3, 12, 23]), rng.choice([0, 30, 59]), rng.choice([0, 59])]
    k = rng.random()
    if k < 0.25:
        return {'boot': True}
    if k < 0.6:
        return {'dow': rng.randint(0, 6), 'time': t}
    if k < 0.85:
        return {'dom': rng.randint(1, 28), 'time': t}
    return {'day': [rng.randint(2024, 2027), rng.randint(1, 12), rng.randint(1, 28)], 'time': t}


def _ver(rng):
    return [rng.randint(1, 3), rng.randint(0, 3), rng.randint(0, 3)]


def _refs_to(rng, ptk, palg, kind):
    '''one or more references from an algorithm of `kind` to palg'''
    levels = ['alg', 'sv', 'v'] if kind == 'task' else ['sv', 'v']
    level = rng.choice(levels)
    base = {'tk': ptk['name'], 'alg': palg['name']}
    if level == 'alg':
        return [dict(base, level='alg')]
    out = []
    svs = rng.sample(palg['svs'], rng.randint(1, len(palg['svs'])))
    for sv in svs:
        if level == 'sv' or rng.random() < 0.3:
            out.append(dict(base, level='sv', sv=sv['name']))
        else:
            for v in rng.sample(sv['vals'], rng.randint(1, len(sv['vals']))):
                out.append(dict(base, level='v', sv=sv['name'], v=v['name']))
    return out


# ---------------------------------------------------------------------------
# reference model
class Reference:
    '''dependency relations computed from the spec alone'''

    # pylint: disable=too-many-instance-attributes
    def __init__(self, spec):
        self.spec = spec
        self.algs = {}  # 'tk.alg' -> alg dict
        self.kind = {}
        self.values = {}  # 'tk.alg' -> ['tk.alg.sv.v', ...]
        self.order = []
        for tk in spec['tasks']:
            for alg in tk['algs']:
                tag = f'{tk["name"]}.{alg["name"]}'
                self.algs[tag] = alg
                self.kind[tag] = alg['kind']
                self.order.append(tag)
                self.values[tag] = [
                    f'{tag}.{sv["name"]}.{v["name"]}'
                    for sv in alg['svs']
                    for v in sv['vals']
                ]
        self.in_values = {t: self.expand(a['inputs']) for t, a in self.algs.items()}
        self.fb_values = {t: self.expand(a['feedback']) for t, a in self.algs.items()}
        self.parents = {
            t: {'.'.join(v.split('.')[:2]) for v in vs} for t, vs in self.in_values.items()
        }
        self.children = {t: set() for t in self.algs}
        for t, ps in self.parents.items():
            for p in ps:
                self.children[p].add(t)
        self.anc = {t: self._closure(t, self.parents) for t in self.algs}
        self.desc = {t: self._closure(t, self.children) for t in self.algs}
        # value-level direct edges parent value -> every value of the consumer
        self.vedges = {
            (pv, cv) for t, pvs in self.in_values.items() for pv in pvs for cv in self.values[t]
        }
        # sv-level edges
        self.svedges = {
            ('.'.join(p.split('.')[:3]), '.'.join(c.split('.')[:3])) for p, c in self.vedges
        }
        self.aedges = {(p, t) for t, ps in self.parents.items() for p in ps}

    def expand(self, refs):
        out = set()
        for r in refs:
            tag = f'{r["tk"]}.{r["alg"]}'
            alg = self.algs[tag]
            for sv in alg['svs']:
                if r['level'] != 'alg' and sv['name'] != r['sv']:
                    continue
                for v in sv['vals']:
                    if r['level'] == 'v' and v['name'] != r['v']:
                        continue
                    out.add(f'{tag}.{sv["name"]}.{v["name"]}')
        return out

    @staticmethod
    def _closure(t, rel):
        seen, todo = set(), list(rel[t])
        while todo:
            x = todo.pop()
            if x not in seen:
                seen.add(x)
                todo.extend(rel[x])
        return seen

    def depth(self, t):
        return 0 if not self.parents[t] else 1 + max(self.depth(p) for p in self.parents[t])

    def consumers_of(self, values):
        '''algorithms whose declared (non-feedback) inputs intersect values'''
        vs = set(values)
        return {t for t, ins in self.in_values.items() if ins & vs}

    def feedback_consumers_of(self, values):
        vs = set(values)
        return {t for t, ins in self.fb_values.items() if ins & vs}

    def shape_hash(self):
        from .result import h64  # pylint: disable=import-outside-toplevel

        idx = {t: i for i, t in enumerate(self.order)}
        return h64(
            [
                sorted((idx[p], idx[c]) for p, c in self.aedges),
                [self.kind[t] for t in self.order],
                [len(self.values[t]) for t in self.order],
                self.spec['style'],
            ]
        )

    def versions(self):
        '''(alg, sv, value) name -> version string, as pl.version.current reports'''
        talg, tsv, tv = {}, {}, {}
        for tag, alg in self.algs.items():
            talg[tag] = _vs(alg['ver'])
            for sv in alg['svs']:
                tsv[f'{tag}.{sv["name"]}'] = _vs(sv['ver'])
                for v in sv['vals']:
                    tv[f'{tag}.{sv["name"]}.{v["name"]}'] = _vs(v['ver'])
        return talg, tsv, tv


def _vs(ver):
    return '.'.join(str(i) for i in ver)


# ---------------------------------------------------------------------------
# code generation
def _cls(prefix, *names):
    return prefix + '_' + '_'.join(n.replace('-', '_') for n in names)


def _ref_code(pkg, r):
    mod = f'{pkg}.{r["tk"]}'
    inst = f'self._dep("{r["tk"]}", "{r["alg"]}")'
    fac = f'_fac("{mod}", _KIND["{r["tk"]}.{r["alg"]}"])'
    if r['level'] == 'alg':
        return f'dawgie.ALG_REF({fac}, {inst})'
    if r['level'] == 'sv':
        return f'dawgie.SV_REF({fac}, {inst}, {inst}.sv_as_dict()["{r["sv"]}"])'
    return f'dawgie.V_REF({fac}, {inst}, {inst}.sv_as_dict()["{r["sv"]}"], "{r["v"]}")'


def _event_code(ev, fac='None', impl='None'):
    if ev.get('boot'):
        return f'dawgie.schedule({fac}, {impl}, boot=True)'
    t = 'datetime.time(%d, %d, %d)' % tuple(ev['time'])
    if 'dow' in ev:
        return f'dawgie.schedule({fac}, {impl}, dow={ev["dow"]}, time={t})'
    if 'dom' in ev:
        return f'dawgie.schedule({fac}, {impl}, dom={ev["dom"]}, time={t})'
    d = 'datetime.date(%d, %d, %d)' % tuple(ev['day'])
    return f'dawgie.schedule({fac}, {impl}, day={d}, time={t})'


def _impl_source(spec, tk, kinds):
    '''impl.py of one task package'''
    pkg = spec['pkg']
    new = spec['style'] == 'new'
    out = [
        '# generated by vf.aegen',
        'import datetime',
        'import importlib',
        'import dawgie',
        '',
        f'_KIND = {kinds!r}',
        '',
        'def _fac(modname, kind):',
        '    return getattr(importlib.import_module(modname), kind)',
        '',
        'def _hook(alg, *args):',
        '    import vf.engine_rt',
        '    return vf.engine_rt.run(alg, *args)',
        '',
    ]
    for alg in tk['algs']:
        an = alg['name']
        for sv in alg['svs']:
            for v in sv['vals']:
                c = _cls('V', an, sv['name'], v['name'])
                out += [
                    f'class {c}(dawgie.Value):',
                    '    def __init__(self, content=None):',
                    '        dawgie.Value.__init__(self)',
                    '        self.content = content',
                    '        self._version_ = dawgie.VERSION(%d, %d, %d)' % tuple(v['ver']),
                    '    def features(self):',
                    '        return []',
                    '',
                ]
            c = _cls('SV', an, sv['name'])
            out += [
                f'class {c}(dawgie.StateVector):',
                '    def __init__(self):',
                '        dawgie.StateVector.__init__(self)',
                '        self._version_ = dawgie.VERSION(%d, %d, %d)' % tuple(sv['ver']),
            ]
            for v in sv['vals']:
                out.append(f'        self["{v["name"]}"] = {_cls("V", an, sv["name"], v["name"])}()')
            out += [
                '    def name(self):',
                f'        return "{sv["name"]}"',
                '    def view(self, caller, visitor):',
                '        return',
                '',
            ]
        c = _cls('A', an)
        out.append(f'class {c}(dawgie.{BASE_OF[alg["kind"]]}):')
        if new and alg['events']:
            evs = ', '.join(_event_code(e) for e in alg['events'])
            out.append(f'    DAWGIE_SCHEDULE = [{evs}]')
        out += [
            '    def __init__(self):',
            '        self._version_ = dawgie.VERSION(%d, %d, %d)' % tuple(alg['ver']),
            '        self._svs = [%s]' % ', '.join(_cls('SV', an, sv['name']) + '()' for sv in alg['svs']),
            '        self._deps = {}',
            '    def _dep(self, tk, an):',
            '        key = tk + "." + an',
            '        if key not in self._deps:',
            f'            mod = importlib.import_module("{pkg}." + tk + ".impl")',
            '            self._deps[key] = getattr(mod, "A_" + an.replace("-", "_"))()',
            '        return self._deps[key]',
            '    def name(self):',
            f'        return "{an}"',
            f'    def {DEPS_OF[alg["kind"]]}(self):',
            '        return [%s]' % ', '.join(_ref_code(pkg, r) for r in alg['inputs']),
            '    def feedback(self):',
            '        return [%s]' % ', '.join(_ref_code(pkg, r) for r in alg['feedback']),
            '    def state_vectors(self):',
            '        return self._svs',
            '    def where(self):',
            f'        return dawgie.Distribution.{alg["where"]}',
        ]
        if alg['kind'] == 'task':
            out += ['    def run(self, ds, ps):', '        return _hook(self, ds)']
        elif alg['kind'] == 'analysis':
            out += ['    def run(self, aspects):', '        return _hook(self, aspects)']
        else:
            out += ['    def run(self, ps, timeline):', '        return _hook(self, timeline)']
        out.append('')
    return '\n'.join(out) + '\n'


NEW_INIT = '''# generated by vf.aegen (auto-registered style)
import dawgie
import dawgie.base


def analysis(
    prefix: str, ps_hint: int = 0, runid: int = -1
) -> dawgie.FactoryPlaceholder[dawgie.base.Analysis]:
    raise NotImplementedError('placeholder until dawgie monkey patches me')


def events() -> dawgie.FactoryPlaceholder[list[dawgie.EVENT]]:
    raise NotImplementedError('placeholder until dawgie monkey patches me')


def regress(
    prefix: str, ps_hint: int = 0, target: str = '__none__'
) -> dawgie.FactoryPlaceholder[dawgie.base.Regress]:
    raise NotImplementedError('placeholder until dawgie monkey patches me')


def task(
    prefix: str, ps_hint: int = 0, runid: int = -1, target: str = '__none__'
) -> dawgie.FactoryPlaceholder[dawgie.base.Task]:
    raise NotImplementedError('placeholder until dawgie monkey patches me')
'''


def _old_init_source(spec, tk):
    pkg = spec['pkg']
    mod = f'{pkg}.{tk["name"]}'
    kinds = {a['kind'] for a in tk['algs']}
    out = ['# generated by vf.aegen (deprecated factory/bot style)', 'import datetime', 'import dawgie', '']
    if 'analysis' in kinds:
        out += [
            'def analysis(prefix: str, ps_hint: int = 0, runid: int = -1):',
            f'    import {mod}.bot',
            f'    return {mod}.bot.Actor(prefix, ps_hint, runid)',
            '',
        ]
    if 'regress' in kinds:
        out += [
            "def regress(prefix: str, ps_hint: int = 0, target: str = '__none__'):",
            f'    import {mod}.bot',
            f'    return {mod}.bot.Regress(prefix, ps_hint, target)',
            '',
        ]
    if 'task' in kinds:
        out += [
            "def task(prefix: str, ps_hint: int = 0, runid: int = -1, target: str = '__none__'):",
            f'    import {mod}.bot',
            f'    return {mod}.bot.Agent(prefix, ps_hint, runid, target)',
            '',
        ]
    evs = []
    for alg in tk['algs']:
        for e in alg['events']:
            evs.append(
                _event_code(e, FACTORY_OF[alg['kind']], f'{mod}.impl.{_cls("A", alg["name"])}()')
            )
    if evs:
        out += ['def events():', f'    import {mod}.impl', '    return [%s]' % ', '.join(evs), '']
    return '\n'.join(out) + '\n'


def _old_bot_source(spec, tk):
    mod = f'{spec["pkg"]}.{tk["name"]}'
    out = ['# generated by vf.aegen', 'import dawgie', f'import {mod}.impl as impl', '']
    for kind, cls, base in (('analysis', 'Actor', 'Analysis'), ('regress', 'Regress', 'Regress'), ('task', 'Agent', 'Task')):
        algs = [a for a in tk['algs'] if a['kind'] == kind]
        if algs:
            out += [
                f'class {cls}(dawgie.{base}):',
                '    def list(self):',
                '        return [%s]' % ', '.join('impl.' + _cls('A', a['name']) + '()' for a in algs),
                '',
            ]
    return '\n'.join(out) + '\n'


def write(spec, root):
    '''write the engine under root/<pkg>; returns the package directory'''
    pkg = spec['pkg']
    base = os.path.join(root, pkg)
    os.makedirs(base, exist_ok=True)
    with open(os.path.join(base, '__init__.py'), 'wt', encoding='utf-8') as f:
        f.write('# generated by vf.aegen\n')
    kinds = {
        f'{tk["name"]}.{a["name"]}': FACTORY_OF[a['kind']] for tk in spec['tasks'] for a in tk['algs']
    }
    for tk in spec['tasks']:
        d = os.path.join(base, tk['name'])
        os.makedirs(d, exist_ok=True)
        with open(os.path.join(d, '__init__.py'), 'wt', encoding='utf-8') as f:
            f.write(NEW_INIT if spec['style'] == 'new' else _old_init_source(spec, tk))
        with open(os.path.join(d, 'impl.py'), 'wt', encoding='utf-8') as f:
            f.write(_impl_source(spec, tk, kinds))
        if spec['style'] == 'old':
            with open(os.path.join(d, 'bot.py'), 'wt', encoding='utf-8') as f:
                f.write(_old_bot_source(spec, tk))
    return base


def prepare(spec, root, write_files=True):
    '''write the engine and point dawgie.context at it (no import yet)'''
    import importlib  # pylint: disable=import-outside-toplevel
    import sys  # pylint: disable=import-outside-toplevel
    import dawgie.context  # pylint: disable=import-outside-toplevel
    import dawgie.pl.scan  # pylint: disable=import-outside-toplevel

    old = getattr(dawgie.context, 'ae_base_package', None)
    if old:
        dawgie.pl.scan.reset(old)
        sys.modules.pop(old, None)
    base = write(spec, root) if write_files else os.path.join(root, spec['pkg'])
    if root not in sys.path:
        sys.path.insert(0, root)
    importlib.invalidate_caches()
    dawgie.context.ae_base_path = base
    dawgie.context.ae_base_package = spec['pkg']
    dawgie.pl.scan.reset(spec['pkg'])
    sys.modules.pop(spec['pkg'], None)
    return base


def load(spec, root):
    '''write + scan with the real dawgie.pl.scan; returns factories dict

    The engine's modules are only ever imported through the scan (classes
    register themselves during the scan and at no other time).
    '''
    import dawgie.pl.scan  # pylint: disable=import-outside-toplevel

    base = prepare(spec, root)
    return dawgie.pl.scan.for_factories(base, spec['pkg'])
