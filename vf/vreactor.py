'''virtual reactor: real twisted code on virtual time, background steps parked

`install()` must run before anything imports twisted.internet.reactor.
'''

import collections
import threading

import twisted.internet.defer
import twisted.internet.main
import twisted.internet.threads
from twisted.internet.testing import MemoryReactorClock
from twisted.python import failure

REACTOR = None


class Parked:
    '''a deferToThread call that the workload runs / completes when it wants'''

    # pylint: disable=too-few-public-methods
    def __init__(self, func, args, kwds):
        self.func = func
        self.args = args
        self.kwds = kwds
        self.deferred = twisted.internet.defer.Deferred()
        self.ran = False
        self.result = None
        self.name = getattr(func, '__name__', repr(func))

    def run(self):
        '''execute the body now (in the caller's thread, atomically)'''
        if self.ran:
            return
        self.ran = True
        try:
            self.result = self.func(*self.args, **self.kwds)
        except BaseException:  # pylint: disable=broad-exception-caught
            self.result = failure.Failure()

    def complete(self):
        '''deliver the result to the reactor side (fires the callbacks)'''
        self.run()
        d, self.deferred = self.deferred, None
        if d is not None:
            d.callback(self.result)


class VReactor(MemoryReactorClock):
    '''MemoryReactorClock + controlled deferToThread + callFromThread queue'''

    def __init__(self):
        super().__init__()
        self.parked = []
        self.from_thread = collections.deque()
        self.mode = 'controlled'  # or 'inline'
        self._lock = threading.Lock()
        self.running = True

    # -- threads ---------------------------------------------------------
    def defer_to_thread(self, func, *args, **kwds):
        p = Parked(func, args, kwds)
        if self.mode == 'inline':
            p.run()
            d = p.deferred
            p.complete()
            return d
        self.parked.append(p)
        return p.deferred

    def callFromThread(self, func, *args, **kwds):  # pylint: disable=invalid-name
        with self._lock:
            self.from_thread.append((func, args, kwds))

    def drain_from_thread(self):
        n = 0
        while True:
            with self._lock:
                if not self.from_thread:
                    return n
                func, args, kwds = self.from_thread.popleft()
            func(*args, **kwds)
            n += 1

    def take(self, name=None):
        '''pop the oldest parked step (optionally by function name)'''
        for i, p in enumerate(self.parked):
            if name is None or p.name == name:
                return self.parked.pop(i)
        return None

    def reset(self, keep_servers=False):
        '''forget timers, listeners and parked steps (between histories)'''
        for call in list(self.getDelayedCalls()):
            if call.active():
                call.cancel()
        self.parked.clear()
        self.from_thread.clear()
        if not keep_servers:
            self.tcpServers.clear()
            self.sslServers.clear()

    def factory_for(self, port):
        for rec in reversed(self.tcpServers + self.sslServers):
            if int(rec[0]) == int(port):
                return rec[1]
        return None

    def spawnProcess(self, *_a, **_k):  # pylint: disable=invalid-name
        raise NotImplementedError('no process spawning on the virtual reactor')


def install():
    global REACTOR  # pylint: disable=global-statement
    if REACTOR is not None:
        return REACTOR
    REACTOR = VReactor()
    twisted.internet.main.installReactor(REACTOR)
    twisted.internet.threads.deferToThread = REACTOR.defer_to_thread
    return REACTOR
