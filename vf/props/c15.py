'''C15 - version order is total; a version change reschedules exactly its owner'''

import copy
import itertools
import random

from .. import aegen, boot
from ..result import Result, h64, keep_going

ID = 'C15'
LEVEL = 'exploration'
NONTRIVIAL = 'nontrivial'
RULE = (
    '(a) every ordered pair of versions over {0,1,2,9,10,11}^3 (46 656 pairs, exhaustive) plus random large '
    'components, on plain dawgie.Version objects and on Algorithm / Analyzer / Regression / StateVector / Value '
    'subclasses taken from a generated engine: each of == != < <= > >= must equal the tuple comparison and '
    'a.newer(VERSION(b)) == (a > b); trichotomy and antisymmetry are re-derived from the six recorded answers. '
    '(b) generated engines: one to three "old" variants are recorded into the real shelve DB with '
    'pl.version.record, a "new" variant bumps (or reverts to a recorded version of) a random subset of '
    'algorithm / state-vector / value versions and may add elements; the real schedule.build(facs, '
    'version.current, version.persistent) then runs and every node\'s todo set and the queue are compared '
    'with the reference diff (own bookkeeping of what was recorded). non-trivial (b) = case where at least '
    'one node is scheduled and at least one is not; distinct = hash(engine shape, bump set)'
)
ASSUMPTIONS = [
    'shelve back end only (db.versions() of the post back end is not reachable offline)',
    'version components are non-negative integers, as the class contract states',
]
FLOORS = {
    'quick': {'pair_checks': 46656, 'build_cases': 300, 'nontrivial': 100, 'nodes_checked': 2000},
    'thorough': {'pair_checks': 46656, 'build_cases': 6000, 'nontrivial': 2000},
}
BUDGET = {'quick': 22.0, 'thorough': 420.0}
MANIFEST = dict(
    category='exploration',
    technique='runtime oracle: tuple order vs the six operators + newer() on all pairs of a grid; reference version-diff vs todo sets after the real schedule.build on generated engines with recorded version histories',
    text=(
        'Part (a) enumerates all 46 656 pairs of a 6x6x6 grid exhaustively (plus random large values) on every '
        'class that inherits the comparison. Part (b) is a for-all over engines and bump sets: thousands of '
        'generated (old, new) engine pairs go through the real record / current / persistent / build path and the '
        'scheduled set is compared with an independent diff.'
    ),
    design='DESIGN.md §2 C15',
    note='Trusted base: CPython, the harness and its bookkeeping of recorded versions. shelve back end only.',
)
GRID = (0, 1, 2, 9, 10, 11)


def plan(tier, seed):
    specs = []
    # 6 shards enumerate the pair grid (split on the first design component)
    for i, d in enumerate(GRID):
        specs.append({'seed': seed * 1000 + i, 'mode': 'pairs', 'design': d, 'budget': 3.0 if tier == 'quick' else 30.0})
    for i in range(10):
        specs.append({'seed': seed * 1000 + 100 + i, 'mode': 'build', 'budget': BUDGET[tier]})
    return specs


# ---------------------------------------------------------------------------
# (a) order
def _mk(cls_or_obj, ver):
    import dawgie  # pylint: disable=import-outside-toplevel

    if isinstance(cls_or_obj, type):
        o = cls_or_obj.__new__(cls_or_obj)
    else:
        o = copy.copy(cls_or_obj)
    o._version_ = dawgie.VERSION(*ver)  # pylint: disable=protected-access
    return o


def check_pair(res, kind, a, b, va, vb, witness):
    import dawgie  # pylint: disable=import-outside-toplevel

    got = {
        '==': a == b, '!=': a != b, '<': a < b, '<=': a <= b, '>': a > b, '>=': a >= b,
        'newer': a.newer(dawgie.VERSION(*vb)),
    }
    want = {
        '==': va == vb, '!=': va != vb, '<': va < vb, '<=': va <= vb, '>': va > vb, '>=': va >= vb,
        'newer': va > vb,
    }
    res.count('pair_checks')
    res.count('operator_evaluations', 7)
    for op, g in got.items():
        if g is not want[op] and bool(g) != want[op]:
            res.violation(
                'order-' + ('newer' if op == 'newer' else 'operator'),
                f'{kind}: {va} {op} {vb} gave {g}, tuple order says {want[op]}',
                dict(witness, a=list(va), b=list(vb), kind=kind),
                mechanism='C15/order',
            )
            return False
    # mutual consistency, re-derived from the recorded answers only
    if sum([bool(got['<']), bool(got['==']), bool(got['>'])]) != 1:
        res.violation('order-trichotomy', f'{kind}: {va} vs {vb}: {got}', dict(witness, a=list(va), b=list(vb), kind=kind), mechanism='C15/order')
        return False
    return True


def subjects(root, rng):
    '''classes/objects that inherit the comparison: plain Version + engine classes'''
    import dawgie  # pylint: disable=import-outside-toplevel

    class Plain(dawgie.Version):
        pass

    out = [('Version', Plain)]
    spec = aegen.generate(rng, n_algs=4, p_analysis=0.34, p_regress=0.33, p_feedback=0, p_event=0, shape='chain')
    kinds = ['task', 'analysis', 'regress', 'task']
    for (tk, alg), k in zip([(t, a) for t in spec['tasks'] for a in t['algs']], kinds):
        alg['kind'] = k
        alg['inputs'] = []
    facs = aegen.load(spec, root)
    seen = set()
    for fl in facs.values():
        for f in fl:
            if f.__name__ == 'events':
                continue
            bot = f(dawgie.util.task_name(f))
            for alg in bot.routines():
                base = [c.__name__ for c in type(alg).__mro__ if c.__module__ == 'dawgie'][0]
                if base not in seen:
                    seen.add(base)
                    out.append((base, alg))
                for sv in alg.state_vectors():
                    if 'StateVector' not in seen:
                        seen.add('StateVector')
                        out.append(('StateVector', sv))
                    for v in sv.values():
                        if 'Value' not in seen:
                            seen.add('Value')
                            out.append(('Value', v))
    return out


def run_pairs(spec, res):
    rng = random.Random(spec['seed'])
    root = boot.scratch('c15a')
    subs = subjects(root, rng)
    res.extra['subjects'] = [k for k, _ in subs]
    d = spec['design']
    grid = list(itertools.product(GRID, GRID, GRID))
    mine = [v for v in grid if v[0] == d]
    n = 0
    for va in mine:
        for vb in grid:
            kind, sub = subs[n % len(subs)]
            n += 1
            a, b = _mk(sub, va), _mk(sub, vb)
            check_pair(res, kind, a, b, va, vb, {'mode': 'pair'})
            res.see('subject_kinds', kind)
    res.count('evaluations', n)
    # every subject sees a full row of the grid at least once, and random big values
    for kind, sub in subs:
        for _ in range(400):
            big = rng.choice([3, 10, 10**3, 10**9, 2**40])
            va = tuple(rng.randrange(0, big) for _ in range(3))
            vb = tuple(rng.choice([x, rng.randrange(0, big)]) for x in va)
            check_pair(res, kind, _mk(sub, va), _mk(sub, vb), va, vb, {'mode': 'pair'})
            res.count('random_pairs')
    res.see('nontrivial', 'pairs-%d' % d)
    res.sample({'mode': 'pairs', 'design': d, 'subjects': [k for k, _ in subs], 'example': [list(mine[1]), list(grid[7])]})
    res.extra['exhaustive_pairs_grid'] = list(GRID)


# ---------------------------------------------------------------------------
# (b) build
def _bump(rng, ver, recorded):
    '''a version string not yet recorded (mostly) or a recorded older one (revert)'''
    if recorded and rng.random() < 0.25:
        return list(rng.choice(sorted(recorded)))
    v = list(ver)
    i = rng.randrange(3)
    v[i] += rng.choice([1, 1, 2, 9])
    for j in range(i + 1, 3):
        if rng.random() < 0.7:
            v[j] = 0
    return v


def gen_build_case(rng):
    n = rng.choice([2, 3, 4, 5, 6, 8])
    base = aegen.generate(rng, n_algs=n, p_event=0, p_feedback=0.15, max_svs=2, max_vals=3)
    nt = rng.choice([0, 1, 2, 3])
    targets = [f'T{i}' for i in range(nt)]
    gens = [base]
    for _ in range(rng.choice([0, 0, 1, 2])):
        g = copy.deepcopy(gens[-1])
        _mutate_versions(rng, g, {}, p=0.3)
        gens.append(g)
    # which algorithms of each old generation get recorded
    recs = []
    for g in gens:
        tags = [f'{t["name"]}.{a["name"]}' for t in g['tasks'] for a in t['algs']]
        k = rng.random()
        recs.append(tags if k < 0.6 else [t for t in tags if rng.random() < 0.6])
    new = copy.deepcopy(gens[-1])
    return {'gens': gens, 'records': recs, 'targets': targets, 'new': new, 'bumps': None}


def _mutate_versions(rng, spec, recorded, p):
    '''bump a random subset of element versions in place; returns list of bumped element names'''
    bumped = []
    for tk in spec['tasks']:
        for alg in tk['algs']:
            tag = f'{tk["name"]}.{alg["name"]}'
            if rng.random() < p:
                alg['ver'] = _bump(rng, alg['ver'], recorded.get(tag))
                bumped.append(tag)
            for sv in alg['svs']:
                sn = f'{tag}.{sv["name"]}'
                if rng.random() < p * 0.6:
                    sv['ver'] = _bump(rng, sv['ver'], recorded.get(sn))
                    bumped.append(sn)
                for v in sv['vals']:
                    vn = f'{sn}.{v["name"]}'
                    if rng.random() < p * 0.4:
                        v['ver'] = _bump(rng, v['ver'], recorded.get(vn))
                        bumped.append(vn)
    return bumped


def _add_elements(rng, spec):
    '''new value / state vector / algorithm (a software update may add any)'''
    added = []
    algs = [(t, a) for t in spec['tasks'] for a in t['algs']]
    k = rng.random()
    if k < 0.25:
        tk, alg = rng.choice(algs)
        sv = rng.choice(alg['svs'])
        sv['vals'].append({'name': 'zz_new', 'ver': [1, 0, 0]})
        added.append(f'{tk["name"]}.{alg["name"]}.{sv["name"]}.zz_new')
    elif k < 0.45:
        tk, alg = rng.choice(algs)
        alg['svs'].append({'name': 'zz_sv', 'ver': [1, 0, 0], 'vals': [{'name': 'q', 'ver': [1, 0, 0]}]})
        added.append(f'{tk["name"]}.{alg["name"]}.zz_sv')
    elif k < 0.6:
        tk = rng.choice(spec['tasks'])
        kind = rng.choice(['task', 'analysis', 'regress'])
        tk['algs'].append(
            {
                'name': 'zz_alg', 'kind': kind, 'ver': [1, 0, 0],
                'svs': [{'name': 'sv', 'ver': [1, 0, 0], 'vals': [{'name': 'v', 'ver': [1, 0, 0]}]}],
                'inputs': [], 'feedback': [], 'events': [], 'where': 'auto',
            }
        )
        added.append(f'{tk["name"]}.zz_alg')
    return added


class Book:
    '''own record of what pl.version.record was asked to persist'''

    def __init__(self):
        self.rec = {}  # element name -> set of version tuples

    def add(self, spec, tags):
        ref = aegen.Reference(spec)
        for tag in tags:
            alg = ref.algs[tag]
            self.rec.setdefault(tag, set()).add(tuple(alg['ver']))
            for sv in alg['svs']:
                self.rec.setdefault(f'{tag}.{sv["name"]}', set()).add(tuple(sv['ver']))
                for v in sv['vals']:
                    self.rec.setdefault(f'{tag}.{sv["name"]}.{v["name"]}', set()).add(tuple(v['ver']))

    def owners_to_schedule(self, spec):
        ref = aegen.Reference(spec)
        out = {}
        for tag, alg in ref.algs.items():
            why = []
            if tuple(alg['ver']) not in self.rec.get(tag, ()):
                why.append(tag)
            for sv in alg['svs']:
                sn = f'{tag}.{sv["name"]}'
                if tuple(sv['ver']) not in self.rec.get(sn, ()):
                    why.append(sn)
                for v in sv['vals']:
                    vn = f'{sn}.{v["name"]}'
                    if tuple(v['ver']) not in self.rec.get(vn, ()):
                        why.append(vn)
            if why:
                out[tag] = why
        return out


def run_build_case(world, case, res, rng=None):
    '''drives record x N, then the real build; returns (bad, info)'''
    # pylint: disable=too-many-locals
    import dawgie  # pylint: disable=import-outside-toplevel
    import dawgie.pl.schedule as sch  # pylint: disable=import-outside-toplevel
    import dawgie.pl.version  # pylint: disable=import-outside-toplevel
    import dawgie.util  # pylint: disable=import-outside-toplevel

    world.reset_pipeline_state()
    world.fresh_db(case['targets'])
    book = Book()
    for i, (g, tags) in enumerate(zip(case['gens'], case['records'])):
        g = dict(g, pkg=f'{g["pkg"]}_g{i}')
        facs = aegen.load(g, world.aeroot)
        allf = facs[dawgie.Factories.analysis] + facs[dawgie.Factories.regress] + facs[dawgie.Factories.task]
        want = set(tags)
        for f in allf:
            bot = f(dawgie.util.task_name(f))
            for alg in bot.routines():
                if f'{bot._name()}.{alg.name()}' in want:  # pylint: disable=protected-access
                    dawgie.pl.version.record(bot, only=alg.name())
                    res.count('anchor_version_record')
        book.add(g, tags)
    if case['bumps'] is None:
        new = case['new']
        case['bumps'] = _mutate_versions(rng, new, book.rec, p=rng.choice([0.0, 0.15, 0.4]))
        case['bumps'] += _add_elements(rng, new) if rng.random() < 0.4 else []
    new = dict(case['new'], pkg=case['new']['pkg'] + '_new')
    facs = aegen.load(new, world.aeroot)
    allf = facs[dawgie.Factories.analysis] + facs[dawgie.Factories.regress] + facs[dawgie.Factories.task]
    cur = dawgie.pl.version.current(allf)
    per = dawgie.pl.version.persistent()
    sch.build(facs, cur, per)
    res.count('anchor_schedule_build')
    ref = aegen.Reference(new)
    want = book.owners_to_schedule(new)
    bad = []
    nodes = {}
    stack = list(sch.ae.at)
    while stack:
        n = stack.pop()
        nodes.setdefault(n.tag, n)
        stack.extend(list(n))
    targets = set(case['targets'])
    scheduled = 0
    for tag in ref.order:
        n = nodes.get(tag)
        if n is None:
            bad.append(('node-missing', f'{tag} not in the task graph'))
            continue
        got = set(n.get('todo'))
        if tag in want:
            exp = {'__all__'} if ref.kind[tag] == 'analysis' else set(targets)
            scheduled += 1
        else:
            exp = set()
        res.count('nodes_checked')
        if got != exp:
            clause = 'owner-scheduled' if tag in want else 'nothing-else-scheduled'
            bad.append(
                (clause, f'{tag} ({ref.kind[tag]}): todo={sorted(got)} expected={sorted(exp)}; '
                 f'unrecorded elements={want.get(tag, [])}; targets={sorted(targets)}')
            )
    qgot = sorted(j.tag for j in sch.que)
    qwant = sorted(t for t in want if (ref.kind[t] == 'analysis' or targets))
    res.count('queue_checks')
    if qgot != qwant and not bad:
        bad.append(('queue-after-build', f'que={qgot} expected={qwant}'))
    info = {'scheduled': scheduled, 'unscheduled': len(ref.order) - scheduled, 'shape': ref.shape_hash()}
    return bad, info


_WORLD = []


def get_world():
    from .. import world  # pylint: disable=import-outside-toplevel

    if not _WORLD:
        _WORLD.append(world.World(fsm=False))
    return _WORLD[0]


def run_build(spec, res):
    rng = random.Random(spec['seed'])
    w = get_world()
    n = 0
    while keep_going(res, spec):
        case = gen_build_case(rng)
        bad, info = run_build_case(w, case, res, rng)
        n += 1
        res.count('evaluations')
        res.count('build_cases')
        res.see('engine_shapes', info['shape'])
        if info['scheduled'] and info['unscheduled']:
            res.see('nontrivial', h64([info['shape'], case['bumps'], case['records']]))
        if len(case['gens']) > 1:
            res.count('cases_with_several_recorded_generations')
        if n <= 2:
            res.sample(
                {
                    'mode': 'build', 'targets': case['targets'], 'recorded': case['records'],
                    'bumped_or_added': case['bumps'], 'scheduled': info['scheduled'], 'not_scheduled': info['unscheduled'],
                }
            )
        for clause, detail in bad[:2]:
            res.violation(clause, detail, {'mode': 'build', 'case': case}, mechanism='C15/' + clause)
        if n % 40 == 0:
            w.prune_engines()


def run_shard(spec):
    boot.init()
    boot.stub_dot()
    res = Result()
    if spec['mode'] == 'pairs':
        run_pairs(spec, res)
    else:
        run_build(spec, res)
    return res


def replay(witness):
    boot.init()
    boot.stub_dot()
    res = Result()
    if witness.get('mode') == 'pair':
        root = boot.scratch('c15r')
        subs = dict(subjects(root, random.Random(0)))
        sub = subs.get(witness['kind']) or list(subs.values())[0]
        va, vb = tuple(witness['a']), tuple(witness['b'])
        check_pair(res, witness['kind'], _mk(sub, va), _mk(sub, vb), va, vb, {'mode': 'pair'})
    else:
        bad, _info = run_build_case(get_world(), witness['case'], res)
        for clause, detail in bad[:2]:
            res.violation(clause, detail, witness, mechanism='C15/' + clause)
    res.count('evaluations')
    return res
