'''C04 - idle means idle: runnable work is released and the pipeline quiesces'''

from .. import boot, simfarm, simprops

ID = 'C04'
LEVEL = 'exploration'
NONTRIVIAL = 'nontrivial'
RULE = (
    'C01 histories (incl. empty target list at boot, failures/invalid replies arriving last, analyses below '
    'tasks) followed by a drain phase (dispatch; every worker answers success/nothing-new; repeat). Clauses: '
    '(idle) whenever no node has pending targets and the ledger shows nothing queued or in flight, '
    'schedule.que, view_todo(), view_doing() and crew()[busy] are all empty; (runnable-released) before each '
    'dispatch the set of pending units that are not themselves in flight and whose reference ancestors are '
    'all idle for the target is computed, and each must be in the ledger as released right after that '
    'dispatch; (bounded-quiescence) the drain reaches the idle state within 2*(pending+in-flight)*(depth+1)+8 '
    'rounds - exceeding the bound is reported with the stuck state as witness. non-trivial = history with a '
    'failure/invalid reply and an analysis downstream of a task, that reached idle at least once; distinct = '
    'hash(engine shape, events)'
)
ASSUMPTIONS = [
    'liveness is decided in its bounded form only (rounds of dispatch + replies), never by wall clock',
    'workers always answer; pipeline stays active; promotion disabled (default)',
    'a unit whose own execution is in flight is not expected to be released again (C03)',
]
FLOORS = {
    'quick': {'evaluations': 300, 'idle_checks': 1500, 'runnable_checks': 5000, 'nontrivial': 60, 'drains': 300},
    'thorough': {'evaluations': 5000, 'idle_checks': 30000, 'nontrivial': 1000},
}
BUDGET = {'quick': 25.0, 'thorough': 600.0}


def ledger_idle(sim):
    if sim.inflight():
        return False
    farm = sim.farm
    if farm._cluster or farm._cloud or farm._jobs:  # pylint: disable=protected-access
        return False
    return not any(n.get('todo') for n in sim.nodes().values())


class C04Monitor(simfarm.Monitor):
    # pylint: disable=too-many-instance-attributes
    def __init__(self):
        self.idle_checks = 0
        self.runnable_checks = 0
        self.expect = None
        self.saw_failure = False
        self.reached_idle = 0
        self.drains = 0
        self.stale_seen = 0

    def runnable(self, sim):
        '''pending units the next dispatch must release (reference ancestors idle)'''
        fly = {}
        for r in sim.inflight():
            fly.setdefault(r.tag, set()).add(r.target)
        nodes = sim.nodes()
        pend = {t: set(n.get('todo')) for t, n in nodes.items()}
        out = []
        for tag, todo in pend.items():
            for tg in todo:
                if tg in fly.get(tag, ()):
                    continue  # its own execution is still in flight
                ok = True
                for a in sim.ref.anc.get(tag, ()):
                    busy = pend.get(a, set()) | fly.get(a, set())
                    if tg == '__all__':
                        if busy:
                            ok = False
                    elif busy & {tg, '__all__'}:
                        ok = False
                    if not ok:
                        break
                if ok:
                    out.append((tag, tg))
        return out

    def check_idle(self, sim, where):
        if not ledger_idle(sim):
            return
        self.idle_checks += 1
        self.reached_idle += 1
        sch, farm = sim.sch, sim.farm
        que = [j.tag for j in sch.que]
        todo = sch.view_todo()
        doing = sch.view_doing()
        busy = farm.crew()['busy']
        if que or todo or doing or busy:
            stale = [
                j.tag for j in sch.que if not j.get('todo') and not j.get('doing')
            ]
            mech = None
            if que and stale == que and not todo and not doing and not busy:
                mech = 'C04/stale-queue-entry-' + self.stale_origin(sim)
            sim.violation(
                'idle-reports-empty',
                f'{where}: nothing pending/queued/in flight but que={que} view_todo={todo} '
                f'view_doing={doing} busy={busy}',
                mech,
            )

    @staticmethod
    def stale_origin(sim):
        if not sim.events:
            return 'at-build'
        for ln in reversed(sim.log):
            if ln[0] == 'purges':
                return 'after-purge'
            if ln[0] in ('organize',):
                return 'after-organize'
        return 'other'

    def start(self, sim):
        self.check_idle(sim, 'after build')

    def after_event(self, sim, ev):
        if ev['op'] == 'reply' and ev.get('outcome') != 'success':
            self.saw_failure = True
        if self.expect is not None:
            want, self.expect = self.expect, None
            got = {r.key() for r in sim.releases if r.seq > want[1]}
            self.runnable_checks += len(want[0])
            for u in want[0]:
                if u not in got:
                    blockers = [
                        j.tag for j in sim.sch.que
                        if j.tag in sim.ref.anc.get(u[0], ()) and not j.get('todo') and not j.get('doing')
                    ]
                    mech = 'C04/all-targets-unit-blocked-by-stale-queue-entry' if blockers and u[1] == '__all__' else None
                    sim.violation(
                        'runnable-released',
                        f'{u[0]}[{u[1]}] was pending with every upstream algorithm idle, dispatch did not release it'
                        + (f' (ancestors {blockers} sit in the queue with nothing to do)' if blockers else ''),
                        mech,
                    )
                    return
        self.check_idle(sim, f'after {ev["op"]}')

    def before_event(self, sim, ev):
        if ev['op'] == 'dispatch':
            self.expect = (self.runnable(sim), sim.seq)

    def finish(self, sim, res, shape):
        from ..result import h64  # pylint: disable=import-outside-toplevel

        spec = getattr(sim, 'drain_spec', None)
        if spec and not sim.bad:
            self.drains += 1
            if getattr(sim, 'drain_rounds', None) is None:
                stuck = {
                    t: (sorted(n.get('todo')), sorted(n.get('doing')))
                    for t, n in sim.nodes().items()
                    if n.get('todo') or n.get('doing')
                }
                sim.violation(
                    'bounded-quiescence',
                    f'not quiescent after {spec["max_rounds"]} rounds of dispatch+answers; stuck={stuck} '
                    f'que={[j.tag for j in sim.sch.que]} in-flight={[r.brief() for r in sim.inflight()][:5]}',
                )
        res.count('idle_checks', self.idle_checks)
        res.count('runnable_checks', self.runnable_checks)
        res.count('drains', self.drains)
        analysis_below_task = any(
            sim.ref.kind[t] == 'analysis' and any(sim.ref.kind[a] != 'analysis' for a in sim.ref.anc[t])
            for t in sim.ref.algs
        )
        if self.saw_failure and analysis_below_task and self.reached_idle:
            res.see('nontrivial', h64([shape, sim.events]))


def make_monitors():
    return [C04Monitor()]


def classify(clause, detail, sim):
    return 'C04/' + clause


def drain_spec(rng, case):
    from .. import aegen  # pylint: disable=import-outside-toplevel

    ref = aegen.Reference(case['spec'])
    depth = max(ref.depth(t) for t in ref.algs)
    units = len(ref.algs) * (len(case['targets']) + 4)
    return {'max_rounds': 2 * units * (depth + 1) + 8, 'outcome': 'success', 'new': [False]}


def profile(rng):
    p = {k: (dict(v) if isinstance(v, dict) else v) for k, v in simfarm.DEFAULT_PROFILE.items()}
    tot = rng.choice([0.1, 0.3, 0.5])
    p['p_fail'] = tot * 0.5
    p['p_invalid'] = tot * 0.5
    return p


OPTS = {
    'profile': profile,
    'lengths': [0, 10, 30, 60, 100],
    'ntargets': [0, 1, 1, 2, 3],
    'drain': drain_spec,
    'p_analysis': 0.3,
}


def plan(tier, seed):
    return [{'seed': seed * 1000 + 400 + i, 'budget': BUDGET[tier]} for i in range(16)]


def run_shard(spec):
    boot.init()
    opts = dict(OPTS)
    if spec['tier'] == 'thorough':
        opts['sizes'] = [3, 4, 5, 6, 8, 10, 12, 16, 20]
        opts['lengths'] = [0, 30, 60, 100, 200, 400]
    return simprops.shard_loop(spec, ID, make_monitors, classify, opts)


def replay(witness):
    boot.init()
    return simprops.replay_witness(witness, make_monitors, ID, classify)
