'''C16 - the compliance gate accepts exactly the engines that follow the architecture'''

import copy
import itertools
import os
import random
import re
import subprocess
import sys

from .. import aegen, boot
from ..result import Result, h64, keep_going

ID = 'C16'
LEVEL = 'exploration'
NONTRIVIAL = 'nontrivial'
KINDS = ('task', 'analysis', 'regress')
RULE = (
    '(positive) generated compliant engines: per task package every non-empty subset of {task, analysis, regress} '
    '(all 7 subsets are cycled through, several packages per engine), with / without timer events, both package '
    'styles (auto-registered and deprecated factory/bot), random acyclic dependency shapes using only the reference '
    'kinds the rule docstrings allow. Each must make tools.compliant._verify(_scan()) return True (and, sampled, '
    'python -m dawgie.tools.compliant exit 0), and dag.Construct + schedule.build + schedule.periodics must run '
    'without exception. (negative) a compliant engine plus ONE injected violation - rule 01 arity / default / '
    'annotation of a factory; 02 wrong base type; 03 abstract method not overridden; 04 dotted algorithm / state '
    'vector / value name; 05 empty state vector; 06 reference factory from another package than the '
    'implementation; 07 unpicklable value; 08 ill-typed reference element; 09 no state vectors; 10 two moments '
    'in one event / time that is not a datetime.time; 11 reference to a value / state vector that does not exist - '
    'at every applicable position of the engine must be rejected (gate returns False or raises). non-trivial '
    '(positive) = engine containing a package without a task factory; distinct = hash(engine, defect)'
)
ASSUMPTIONS = [
    'the generator emits exactly what the rule docstrings allow; "follows the architecture" is judged by that generator',
    'rule 01 injections apply to the deprecated style only (auto-registered packages get their factories from dawgie.base)',
]
FLOORS = {
    'quick': {'positive_engines': 150, 'negative_injections': 400, 'kind_subsets_seen': 7, 'rules_injected': 11, 'nontrivial': 60},
    'thorough': {'positive_engines': 5000, 'negative_injections': 15000, 'rules_injected': 11},
}
BUDGET = {'quick': 22.0, 'thorough': 420.0}
MANIFEST = dict(
    category='exploration',
    technique='runtime differential monitor of the gate: generated compliant engines must pass _verify(_scan()) and build/schedule; the same engines with one rule violation injected at every applicable position must be rejected',
    text=(
        'The gate is a predicate over programs: both directions are sampled over generated engines. All 7 factory-kind '
        'subsets per package, both styles and all 11 rules are covered by construction in every run; dependency shapes '
        'and injection positions are enumerated per engine.'
    ),
    design='DESIGN.md §2 C16',
    note='Trusted base: the engine generator (what counts as compliant), CPython import machinery.',
)
SUBSETS = [s for n in (1, 2, 3) for s in itertools.combinations(KINDS, n)]


def plan(tier, seed):
    return [{'seed': seed * 1000 + i, 'budget': BUDGET[tier]} for i in range(16)]


# ---------------------------------------------------------------------------
def gen_engine(rng, index):
    '''compliant engine whose packages cover chosen factory-kind subsets'''
    style = rng.choice(['new', 'old'])
    n_tasks = rng.choice([1, 2, 3, 4])
    tasks = []
    order = []
    first = SUBSETS[index % len(SUBSETS)]
    for ti in range(n_tasks):
        subset = first if ti == 0 else rng.choice(SUBSETS)
        tk = {'name': f'tk{ti}', 'algs': []}
        for kind in subset:
            for j in range(rng.choice([1, 1, 2])):
                alg = {
                    'name': f'{kind[0]}{ti}{j}', 'kind': kind, 'ver': [1, rng.randint(0, 2), 0], 'svs': [], 'inputs': [],
                    'feedback': [], 'events': [], 'where': rng.choice(['auto', 'cluster']),
                }
                for s in rng.sample(['sv', 'sv1', 'state'], rng.randint(1, 2)):
                    alg['svs'].append({'name': s, 'ver': [1, 0, 0], 'vals': [{'name': v, 'ver': [1, 0, 0]} for v in rng.sample(['v', 'val', 'w'], rng.randint(1, 2))]})
                for ptk, palg in order:
                    if rng.random() < 0.35:
                        alg['inputs'].extend(aegen._refs_to(rng, ptk, palg, kind))  # pylint: disable=protected-access
                tk['algs'].append(alg)
                order.append((tk, alg))
        tasks.append(tk)
    if rng.random() < 0.5:
        for _ in range(rng.randint(1, 2)):
            _tk, alg = rng.choice(order)
            alg['events'].append(aegen.gen_event(rng))
    if rng.random() < 0.3 and len(order) > 1:
        i = rng.randrange(0, len(order) - 1)
        j = rng.randrange(i + 1, len(order))
        order[i][1]['feedback'].extend(aegen._refs_to(rng, order[j][0], order[j][1], 'analysis')[:1])  # pylint: disable=protected-access
    return {'pkg': 'ce_%08x' % rng.getrandbits(32), 'style': style, 'tasks': tasks}


def gate(spec, root, write_files=True):
    '''(accepted?, how) - what tools.compliant decides for the engine on disk'''
    import dawgie.tools.compliant as comp  # pylint: disable=import-outside-toplevel

    aegen.prepare(spec, root, write_files)
    try:
        tasks = comp._scan()  # pylint: disable=protected-access
    except BaseException as e:  # pylint: disable=broad-exception-caught
        return False, f'scan raised {type(e).__name__}: {e}'
    if not tasks:
        return False, 'scan found no task package'
    try:
        ok = comp._verify(tasks, True, False)  # pylint: disable=protected-access
    except BaseException as e:  # pylint: disable=broad-exception-caught
        return False, f'_verify raised {type(e).__name__}: {e}'
    return bool(ok), 'verify'


def failing_rules(spec, root):
    '''which rules say no (for the witness text)'''
    import dawgie.tools.compliant as comp  # pylint: disable=import-outside-toplevel

    out = []
    try:
        for t in comp._scan():  # pylint: disable=protected-access
            for r in comp._get_rules():  # pylint: disable=protected-access
                try:
                    ok = getattr(comp, r)(t)
                    why = ''
                except BaseException as e:  # pylint: disable=broad-exception-caught
                    ok, why = False, f' ({type(e).__name__}: {e})'
                if not ok:
                    out.append(f'{t.split(".")[-1]}:{r}{why}')
    except BaseException as e:  # pylint: disable=broad-exception-caught
        out.append(f'scan: {type(e).__name__}: {e}')
    del spec, root
    return out


# ---------------------------------------------------------------------------
# injections: textual edits of the generated sources (their format is ours)
def _edit(path, old, new, count=1):
    with open(path, 'rt', encoding='utf-8') as f:
        src = f.read()
    if old not in src:
        return False
    with open(path, 'wt', encoding='utf-8') as f:
        f.write(src.replace(old, new, count))
    return True


def _re_edit(path, pattern, repl):
    with open(path, 'rt', encoding='utf-8') as f:
        src = f.read()
    new, n = re.subn(pattern, repl, src, count=1, flags=re.S)
    if not n:
        return False
    with open(path, 'wt', encoding='utf-8') as f:
        f.write(new)
    return True


def injections(spec):
    '''every applicable (rule, position) as (label, function(pkgdir) -> applied?)'''
    out = []
    pkg = spec['pkg']
    for tk in spec['tasks']:
        tn = tk['name']
        kinds = sorted({a['kind'] for a in tk['algs']})

        def impl(d, tn=tn):
            return os.path.join(d, tn, 'impl.py')

        def init(d, tn=tn):
            return os.path.join(d, tn, '__init__.py')

        if spec['style'] == 'old':
            for k in kinds:
                out.append((f'01-default:{tn}.{k}', lambda d, k=k, init=init: _re_edit(init(d), rf'(def {k}\(prefix: str, ps_hint: int = )0', r'\g<1>1')))
                out.append((f'01-annotation:{tn}.{k}', lambda d, k=k, init=init: _re_edit(init(d), rf'def {k}\(prefix: str,', f'def {k}(prefix,')))
                out.append((f'01-arity:{tn}.{k}', lambda d, k=k, init=init: _re_edit(init(d), rf'def {k}\(prefix: str, ps_hint: int = 0, ', f'def {k}(prefix: str, ')))
        for a in tk['algs']:
            an = a['name']
            cls = aegen._cls('A', an)  # pylint: disable=protected-access
            base = aegen.BASE_OF[a['kind']]
            if spec['style'] == 'old':
                # (in the auto-registered style a class that does not derive from the base is simply not part of the engine)
                out.append((f'02-alg-base:{tn}.{an}', lambda d, cls=cls, base=base, impl=impl: _edit(impl(d), f'class {cls}(dawgie.{base}):', f'class {cls}(object):')))
            out.append((f'03-no-name:{tn}.{an}', lambda d, cls=cls, an=an, impl=impl: _re_edit(impl(d), rf'(class {cls}\(.*?)    def name\(self\):\n        return "{re.escape(an)}"\n', r'\g<1>')))
            out.append((f'04-alg-name:{tn}.{an}', lambda d, cls=cls, an=an, impl=impl: _re_edit(impl(d), rf'(class {cls}\(.*?    def name\(self\):\n        return "){re.escape(an)}"', rf'\g<1>{an}.x"')))
            out.append((f'09-no-svs:{tn}.{an}', lambda d, cls=cls, impl=impl: _re_edit(impl(d), rf'(class {cls}\(.*?self\._svs = )\[[^\n]*\]', r'\g<1>[]')))
            deps = aegen.DEPS_OF[a['kind']]
            if a['kind'] != 'task':
                # the docstrings allow only SV_REF / V_REF for analyzers and regressions: an ALG_REF breaks rule 03
                if a['inputs']:
                    out.append((f'03-algref-in-{deps}:{tn}.{an}', lambda d, cls=cls, deps=deps, impl=impl: _re_edit(
                        impl(d), rf'(class {cls}\(.*?    def {deps}\(self\):\n        return \[)dawgie\.(?:SV|V)_REF\((_fac\([^)]*\)), (self\._dep\([^)]*\))[^\n]*?\)(, dawgie|\])', r'\g<1>dawgie.ALG_REF(\g<2>, \g<3>)\g<4>')))
            for r in a['inputs'][:2]:
                if r['level'] == 'v':
                    out.append((f'08-feat-not-str:{tn}.{an}', lambda d, cls=cls, r=r, impl=impl: _re_edit(
                        impl(d), rf'(class {cls}\(.*?\.sv_as_dict\(\)\["{r["sv"]}"\], )"{r["v"]}"\)', r'\g<1>7)')))
                    out.append((f'11-no-such-value:{tn}.{an}', lambda d, cls=cls, r=r, impl=impl: _re_edit(
                        impl(d), rf'(class {cls}\(.*?\.sv_as_dict\(\)\["{r["sv"]}"\], )"{r["v"]}"\)', r'\g<1>"nosuchvalue")')))
                if r['level'] == 'sv':
                    out.append((f'08-item-not-sv:{tn}.{an}', lambda d, cls=cls, r=r, impl=impl: _re_edit(
                        impl(d), rf'(class {cls}\(.*?dawgie\.SV_REF\(_fac\([^)]*\), self\._dep\([^)]*\), )self\._dep\([^)]*\)\.sv_as_dict\(\)\["{r["sv"]}"\]\)', r'\g<1>"notastatevector")')))
                if a['kind'] == 'task' and r['tk'] != tn:
                    others = [t['name'] for t in spec['tasks'] if t['name'] not in (r['tk'],) and any(x['kind'] == 'task' for x in t['algs'])]
                    palg = [x for t in spec['tasks'] if t['name'] == r['tk'] for x in t['algs'] if x['name'] == r['alg']]
                    if others and palg and palg[0]['kind'] == 'task':
                        out.append((f'06-foreign-factory:{tn}.{an}', lambda d, cls=cls, r=r, o=others[0], impl=impl: _re_edit(
                            impl(d), rf'(class {cls}\(.*?)_fac\("{pkg}\.{r["tk"]}", _KIND\["{r["tk"]}\.{r["alg"]}"\]\)', rf'\g<1>_fac("{pkg}.{o}", "task")')))
            for sv in a['svs']:
                svc = aegen._cls('SV', an, sv['name'])  # pylint: disable=protected-access
                out.append((f'04-sv-name:{tn}.{an}.{sv["name"]}', lambda d, svc=svc, sv=sv, impl=impl: _re_edit(
                    impl(d), rf'(class {svc}\(.*?    def name\(self\):\n        return "){sv["name"]}"', rf'\g<1>{sv["name"]}.x"')))
                out.append((f'05-empty-sv:{tn}.{an}.{sv["name"]}', lambda d, svc=svc, impl=impl: _re_edit(
                    impl(d), rf'(class {svc}\(dawgie\.StateVector\):.*?VERSION\([^\n]*\)\n)(?:        self\["[^\n]*\n)+', r'\g<1>')))
                out.append((f'02-sv-base:{tn}.{an}.{sv["name"]}', lambda d, svc=svc, impl=impl: _edit(
                    impl(d), f'class {svc}(dawgie.StateVector):\n    def __init__(self):\n        dawgie.StateVector.__init__(self)', f'class {svc}(dict):\n    def __init__(self):\n        dict.__init__(self)')))
                v = sv['vals'][0]
                vc = aegen._cls('V', an, sv['name'], v['name'])  # pylint: disable=protected-access
                out.append((f'04-value-name:{tn}.{an}.{sv["name"]}.{v["name"]}', lambda d, svc=svc, v=v, vc=vc, impl=impl: _edit(
                    impl(d), f'        self["{v["name"]}"] = {vc}()', f'        self["{v["name"]}.x"] = {vc}()')))
                out.append((f'07-unpicklable:{tn}.{an}.{sv["name"]}.{v["name"]}', lambda d, vc=vc, impl=impl: _re_edit(
                    impl(d), rf'(class {vc}\(dawgie\.Value\):\n    def __init__\(self, content=None\):\n        dawgie\.Value\.__init__\(self\)\n)', r'\g<1>        self.hook = lambda: 0\n')))
                out.append((f'02-value-base:{tn}.{an}.{sv["name"]}.{v["name"]}', lambda d, vc=vc, impl=impl: _edit(
                    impl(d), f'class {vc}(dawgie.Value):\n    def __init__(self, content=None):\n        dawgie.Value.__init__(self)', f'class {vc}(object):\n    def __init__(self, content=None):\n        pass')))
            for _e in a['events'][:1]:
                where = init if spec['style'] == 'old' else impl
                out.append((f'10-two-moments:{tn}.{an}', lambda d, where=where: _re_edit(
                    where(d), r'dawgie\.schedule\(([^,]*), ([^,]*(?:\(\))?), (?:boot=True|dow=\d+, time=[^)]*\)|dom=\d+, time=[^)]*\)|day=[^)]*\), time=[^)]*\))\)',
                    r'dawgie.EVENT(dawgie.ALG_REF(\g<1>, \g<2>), dawgie.MOMENT(True, None, 3, None, datetime.time(1, 0, 0)))')))
                out.append((f'10-time-not-a-time:{tn}.{an}', lambda d, where=where: _re_edit(
                    where(d), r'dawgie\.schedule\(([^,]*), ([^,]*(?:\(\))?), (?:boot=True|dow=\d+, time=[^)]*\)|dom=\d+, time=[^)]*\)|day=[^)]*\), time=[^)]*\))\)',
                    r'dawgie.EVENT(dawgie.ALG_REF(\g<1>, \g<2>), dawgie.MOMENT(None, None, None, 2, "03:00"))')))
    return out


# ---------------------------------------------------------------------------
_WORLD = []


def get_world():
    from .. import world  # pylint: disable=import-outside-toplevel

    if not _WORLD:
        _WORLD.append(world.World(fsm=False))
    return _WORLD[0]


def positive(w, spec, res, cli=False):
    '''returns list of (clause, detail)'''
    bad = []
    ok, how = gate(spec, w.aeroot)
    res.count('positive_engines')
    if not ok:
        bad.append(('accepts-compliant', f'compliant engine rejected ({how}); failing: {failing_rules(spec, w.aeroot)[:4]}'))
        return bad
    try:
        w.reset_pipeline_state()
        w.fresh_db(['T0', 'T1'])
        w.load_engine(spec)
        res.count('accepted_engines_built_and_scheduled')
    except BaseException as e:  # pylint: disable=broad-exception-caught
        bad.append(('accepted-can-be-scheduled', f'accepted engine cannot be turned into a schedule: {type(e).__name__}: {e}'))
    if cli and not bad:
        base = os.path.join(w.aeroot, spec['pkg'])
        env = dict(os.environ, PYTHONPATH=os.path.join(boot.REPO, 'Python') + os.pathsep + boot.VERIF)
        cp = subprocess.run([sys.executable, '-m', 'dawgie.tools.compliant', '--ae-dir', base, '--ae-pkg', spec['pkg'], '--silent'],
                            env=env, capture_output=True, timeout=300, check=False)
        res.count('cli_runs')
        if cp.returncode != 0:
            bad.append(('accepts-compliant', f'python -m dawgie.tools.compliant exited {cp.returncode} for a compliant engine: {cp.stdout.decode(errors="replace")[-200:]}'))
    return bad


def run_case(w, rng, index, res, only=None):
    '''one compliant engine + all its injections'''
    spec = gen_engine(rng, index) if only is None else only['spec']
    ref_kinds = {t['name']: tuple(sorted({a['kind'] for a in t['algs']})) for t in spec['tasks']}
    bad = []
    if only is None or only.get('label') is None:
        for clause, detail in positive(w, spec, res, cli=(index % 40 == 0)):
            bad.append((clause, detail, {'spec': spec, 'label': None}))
        for ks in ref_kinds.values():
            res.see('kind_subsets_seen', '+'.join(ks))
        res.see('styles_seen', spec['style'])
        if any('task' not in ks for ks in ref_kinds.values()):
            res.see('nontrivial', h64(spec['tasks']))
        if bad:
            return bad, spec
    inj = injections(spec)
    if only is not None and only.get('label'):
        inj = [i for i in inj if i[0] == only['label']]
    elif len(inj) > 14:
        # every rule at least once, positions sampled
        by_rule = {}
        for lab, fn in inj:
            by_rule.setdefault(lab[:2], []).append((lab, fn))
        inj = [rng.choice(v) for v in by_rule.values()] + rng.sample(inj, 4)
    for k, (label, fn) in enumerate(inj):
        mut = copy.deepcopy(spec)
        mut['pkg'] = f'{spec["pkg"]}_m{k}'
        # write the compliant engine under the new name, then break it
        base = aegen.write(mut, w.aeroot)
        # generated sources mention their own package name: already mut['pkg']
        applied = False
        try:
            # the edit functions are bound to the package name: take the one of the renamed copy
            applied = dict(injections(mut))[label](base)
        except (re.error, KeyError):
            applied = False
        if not applied:
            res.count('injections_not_applicable')
            continue
        ok, how = gate(mut, w.aeroot, write_files=False)
        res.count('negative_injections')
        res.see('rules_injected', label[:2])
        res.see('injection_kinds', label.split(':')[0])
        if ok:
            bad.append(('rejects-violations', f'engine with injected violation {label} was accepted', {'spec': spec, 'label': label}))
            break
    return bad, spec


def run_shard(spec):
    boot.init()
    boot.stub_dot()
    res = Result()
    rng = random.Random(spec['seed'])
    w = get_world()
    n = 0
    while keep_going(res, spec) or n < 8:
        bad, eng = run_case(w, rng, spec['index'] * 1000 + n, res)
        n += 1
        res.count('evaluations')
        if n <= 2:
            res.sample({'style': eng['style'], 'packages': {t['name']: sorted({a['kind'] for a in t['algs']}) for t in eng['tasks']},
                        'events': sum(len(a['events']) for t in eng['tasks'] for a in t['algs'])})
        for clause, detail, wit in bad[:1]:
            res.violation(clause, detail, wit, mechanism='C16/' + clause + (':' + wit['label'].split(':')[0] if wit.get('label') else ''))
        if n % 10 == 0:
            w.prune_engines()
    return res


def replay(witness):
    boot.init()
    boot.stub_dot()
    res = Result()
    w = get_world()
    bad, _ = run_case(w, random.Random(0), 1, res, only=witness)
    for clause, detail, wit in bad[:1]:
        res.violation(clause, detail, witness, mechanism='C16/' + clause + (':' + wit['label'].split(':')[0] if wit.get('label') else ''))
    res.count('evaluations')
    return res
