'''C01 - upstream work always finishes before dependent work is released'''

from .. import boot, simfarm, simprops

ID = 'C01'
LEVEL = 'exploration'
NONTRIVIAL = 'nontrivial'
RULE = (
    'random histories (run requests incl. __all__/unknown target/already-executing unit, run-id-carrying '
    'organize events, new targets, dispatch ticks, worker connects, replies in random order with outcome '
    'success(any subset new)/failure/invalid) over generated engines (2-12 algorithms, tasks/analyses/'
    'regressions, 1-5 targets, some or all versions new at boot) on the real schedule+farm. At the instant '
    'next_job_batch returns, and again when a task message reaches a worker, every reference ancestor of '
    'each released unit is checked against node todo and the ledger of in-flight units. non-trivial = '
    'history in which a unit was released whose reference ancestor had work for the same target earlier; '
    'distinct = hash(engine shape, event list)'
)
ASSUMPTIONS = [
    'workers answer every task they take (no worker crash while executing)',
    'ancestor sets come from the spec-derived reference graph, not from dag.py',
    'life-cycle stays in running (life-cycle changes are exercised under C11)',
]
FLOORS = {
    'quick': {'evaluations': 300, 'release_checks_with_ancestors': 1500, 'nontrivial': 100, 'blocked_observed': 300},
    'thorough': {'evaluations': 5000, 'release_checks_with_ancestors': 30000, 'nontrivial': 2000},
}
BUDGET = {'quick': 25.0, 'thorough': 600.0}


class C01Monitor(simfarm.Monitor):
    def __init__(self):
        self.checks = 0
        self.checks_anc = 0
        self.nontrivial = False
        self.blocked = 0
        self.worked = set()  # (tag, target) that had work at some point
        self.forgot = set()

    def _pending(self, sim):
        return {t: set(n.get('todo')) for t, n in sim.nodes().items()}

    def on_release(self, sim, batch):
        if not batch:
            return
        pend = self._pending(sim)
        fly = {}
        for r in sim.inflight():
            fly.setdefault(r.tag, set()).add(r.target)
        self.forgot = {r.key() for r in sim.inflight() if r.forgotten}
        for rel in batch:
            self._check(sim, rel, pend, fly, 'release')

    def on_handed(self, sim, worker, msg, rel, already):
        if rel is None:
            return
        pend = self._pending(sim)
        fly = {}
        for r in sim.inflight():
            if r is not rel:
                fly.setdefault(r.tag, set()).add(r.target)
        # a unit may be handed long after its release; since then an ancestor may
        # legitimately have received NEW work, so only executing-at-release matters
        # here: ancestors in flight that were released BEFORE this unit
        fly_before = {}
        for r in sim.inflight():
            if r.seq < rel.seq:
                fly_before.setdefault(r.tag, set()).add(r.target)
        self.forgot = {r.key() for r in sim.inflight() if r.forgotten}
        self._check(sim, rel, {}, fly_before, 'handed')

    def _check(self, sim, rel, pend, fly, where):
        anc = sim.ref.anc.get(rel.tag, set())
        self.checks += 1
        self.worked.add(rel.key())
        if not anc:
            return
        self.checks_anc += 1
        for a in sorted(anc):
            p = pend.get(a, set())
            f = fly.get(a, set())
            if (a, rel.target) in self.worked or (a, '__all__') in self.worked:
                self.nontrivial = True
            if rel.target == '__all__':
                bp, bf = p, f
                why = f'all-targets unit released while ancestor {a} has pending={sorted(p)} in-flight={sorted(f)}'
            else:
                hit = {rel.target, '__all__'}
                bp, bf = p & hit, f & hit
                why = f'ancestor {a} has pending={sorted(bp)} in-flight={sorted(bf)}'
            if bp or bf:
                mech = None
                if not bp and all((a, t) in self.forgot for t in bf):
                    # the executing ancestor unit was wiped from the scheduler's
                    # books by the failure purge of one of ITS ancestors
                    mech = 'C01/purge-forgets-executing-descendant'
                sim.violation(
                    'upstream-unfinished-at-' + where,
                    f'{rel.tag}[{rel.target}] (release #{rel.seq}): {why}',
                    mech,
                )
                return

    def after_event(self, sim, ev):
        # evidence that blocking decisions actually happen: pending units whose
        # ancestors are busy right now
        if ev['op'] != 'dispatch':
            return
        fly = sim.inflight_keys()
        for t, n in sim.nodes().items():
            for tg in n.get('todo'):
                if any((a, tg) in fly or (a, '__all__') in fly for a in sim.ref.anc.get(t, ())):
                    self.blocked += 1

    def finish(self, sim, res, shape):
        from ..result import h64  # pylint: disable=import-outside-toplevel

        res.count('release_checks', self.checks)
        res.count('release_checks_with_ancestors', self.checks_anc)
        res.count('blocked_observed', self.blocked)
        if self.nontrivial:
            res.see('nontrivial', h64([shape, sim.events]))


def make_monitors():
    return [C01Monitor()]


def classify(clause, detail, sim):
    return 'C01/' + clause


OPTS = {
    'ntargets': [1, 1, 2, 2, 3, 5],
    'lengths': [30, 60, 100, 150],
}


def plan(tier, seed):
    return [{'seed': seed * 1000 + i, 'budget': BUDGET[tier]} for i in range(16)]


def run_shard(spec):
    boot.init()
    opts = dict(OPTS)
    if spec['tier'] == 'thorough':
        opts['sizes'] = [3, 4, 5, 6, 8, 10, 12, 16, 20]
        opts['lengths'] = [60, 100, 200, 400]
    return simprops.shard_loop(spec, ID, make_monitors, classify, opts)


def replay(witness):
    boot.init()
    return simprops.replay_witness(witness, make_monitors, ID, classify)
