'''C03 - each released unit runs once at a time and its result is never dropped'''

from .. import boot, simfarm, simprops

ID = 'C03'
LEVEL = 'exploration'
NONTRIVIAL = 'nontrivial'
RULE = (
    'same history generator as C01, weighted toward re-requesting units that are pending / released / '
    'executing, with fewer workers than units and replies in adversarial order. After every event the '
    'ledger (built from next_job_batch returns, bytes on worker transports, replies sent, calls of '
    'complete/update/purge and chronicle files) is checked: <=1 in-flight execution per (algorithm,target); '
    'each task message on <=1 transport; released = handed + queued; every reply applied exactly once '
    '(one complete, one chronicle entry, update iff success else purge); crew()[busy] == handed-and-'
    'unanswered. non-trivial = history in which a unit was requested again while in flight; distinct = '
    'hash(engine shape, events)'
)
ASSUMPTIONS = [
    'one reply per task message (workers do not duplicate replies)',
    'workers answer every task they take; life-cycle stays in running',
]
FLOORS = {
    'quick': {'evaluations': 300, 'replies_checked': 3000, 'nontrivial': 100, 'conservation_checks': 10000},
    'thorough': {'evaluations': 5000, 'replies_checked': 60000, 'nontrivial': 2000},
}
BUDGET = {'quick': 25.0, 'thorough': 600.0}


class C03Monitor(simfarm.Monitor):
    # pylint: disable=too-many-instance-attributes
    def __init__(self):
        self.replies = 0
        self.cons = 0
        self.busy_checks = 0
        self.nontrivial = False
        self.chron = 0
        self.inflight_at_request = 0
        self.job_in_que = True

    def on_organize(self, sim, names, runid, targets, event):
        fly = sim.inflight_keys()
        for n in names:
            for t in list(targets or []) + ['__all__']:
                if (n, t) in fly:
                    self.nontrivial = True
                    self.inflight_at_request += 1

    def on_release(self, sim, batch):
        # (i) at most one execution of a unit in flight
        seen = {}
        for r in sim.inflight():
            seen.setdefault(r.key(), []).append(r)
        for rel in batch:
            others = [r for r in seen.get(rel.key(), []) if r is not rel]
            if others:
                mech = None
                if all(r.forgotten for r in others):
                    # the scheduler had been made to forget the running execution by
                    # the failure purge of an ancestor (see known_findings.json)
                    mech = 'C03/purge-forgets-executing-descendant'
                sim.violation(
                    'two-executions-in-flight',
                    f'{rel.tag}[{rel.target}] released as #{rel.seq} while releases {[r.seq for r in others]} '
                    'of the same unit are still in flight',
                    mech,
                )
                return

    def on_handed(self, sim, worker, msg, rel, already):
        if already:
            sim.violation('worker-given-second-task', f'worker {worker.wid} handed {msg.jobid} while holding a task')
        if rel is None:
            sim.violation(
                'task-message-without-release',
                f'worker {worker.wid} received {msg.jobid}[{msg.target}] that no release accounts for',
            )

    def before_res(self, sim, msg):
        self.chron0 = len(sim.chron_appended)
        self.job_in_que = any(j.tag == msg.jobid for j in sim.sch.que)

    def after_res(self, sim, msg):
        self.replies += 1
        n = len(sim.chron_appended) - self.chron0
        tgt = msg.incarnation if msg.incarnation else '__all__'
        rel = [r for r in sim.releases if r.key() == (msg.jobid, tgt) and r.state in ('applied', 'replied')]
        rel = rel[-1] if rel else None
        if rel is None or rel.state != 'applied':
            return  # reported by on_unapplied
        self.chron += 1
        if n != 1:
            sim.violation('history-entries-per-reply', f'{msg.jobid}[{tgt}] reply added {n} chronicle entries')
        want_upd = 1 if rel.outcome == 'success' else 0
        if rel.completes != 1 or rel.updates != want_upd or rel.purges != 1 - want_upd:
            sim.violation(
                'applied-exactly-once',
                f'{msg.jobid}[{tgt}] outcome={rel.outcome}: complete x{rel.completes}, '
                f'update x{rel.updates}, purge x{rel.purges}',
            )
        elif getattr(rel, 'applied_status', None) != rel.outcome:
            sim.violation('recorded-outcome', f'{msg.jobid}[{tgt}] replied {rel.outcome}, recorded {rel.applied_status}')
        else:
            # the completion is recorded in the schedule as well: the unit no longer counts as executing
            # (unless another release of the same unit is in flight - that is the recorded finding)
            node = sim.nodes().get(msg.jobid)
            others = [r for r in sim.inflight() if r.key() == rel.key() and r is not rel]
            self.doing_checks = getattr(self, 'doing_checks', 0) + 1
            if node is not None and not others and tgt in node.get('doing'):
                sim.violation('completion-leaves-executing-set', f'{msg.jobid}[{tgt}] was answered ({rel.outcome}) and applied, the node still lists it as executing: doing={sorted(node.get("doing"))}')

    def on_unapplied(self, sim, rel):
        if rel.epoch != sim.epoch:
            return  # released before the last (re)load: exempt
        sim.violation(
            'result-dropped',
            f'reply for {rel.tag}[{rel.target}] (release #{rel.seq}, outcome {rel.outcome}) was not applied: '
            'no completion recorded, no propagation',
            # the recorded finding is specifically: the forgotten unit's node had LEFT the
            # queue, so the reply could not be matched ('Could not find job'); a reply that
            # is dropped although its node is still queued is something else
            'C03/purge-forgets-executing-descendant' if rel.forgotten and not self.job_in_que else None,
        )

    def after_event(self, sim, ev):
        farm = sim.farm
        # (iii) conservation: every release is on a worker, in the farm queues, or answered
        self.cons += 1
        limbo = [r.brief() for r in sim.releases if r.state == 'released' and r.epoch == sim.epoch and not getattr(r, 'in_jobs', False)]
        if limbo:
            sim.violation('released-unit-vanished', f'released but neither queued nor handed: {limbo[:4]}')
        nq = len(farm._cluster) + len(farm._cloud)  # pylint: disable=protected-access
        nl = sum(1 for r in sim.releases if r.state == 'queued')
        if nq != nl:
            sim.violation('queue-conservation', f'{nq} task messages queued in the farm, ledger expects {nl}')
        # (v) crew view == handed and unanswered
        self.busy_checks += 1
        want = sorted(
            f'{w.task.jobid}[{w.task.target if w.task.target else "__all__"}]'
            for w in sim.workers.values()
            if w.task is not None and not getattr(w.rel, 'stale', False)  # (a reload clears the crew view)
        )
        got = sorted(b.split(' duration:')[0] for b in farm.crew()['busy'])
        if got != want:
            sim.violation('crew-view', f'crew busy={got} but units on workers={want}')

    def finish(self, sim, res, shape):
        from ..result import h64  # pylint: disable=import-outside-toplevel

        res.count('replies_checked', self.replies)
        res.count('executing_set_checks', getattr(self, 'doing_checks', 0))
        res.count('conservation_checks', self.cons)
        res.count('crew_view_checks', self.busy_checks)
        res.count('requests_while_in_flight', self.inflight_at_request)
        res.count('anchor_chronicle_append', self.chron)
        # journal files agree with what was appended and with the ledger
        files = sorted((e['task'], e['target'], e['runid'], e['status']) for e in sim.chronicle_entries())
        if files != sorted(sim.chron_appended):
            sim.violation('journal-files', f'journal files hold {len(files)} entries, {len(sim.chron_appended)} were appended')
        applied = sorted((r.tag, r.target, r.msg.runid, r.outcome) for r in sim.releases if r.state == 'applied')
        if sorted(x for x in files) != applied and sim.epoch == 0:
            sim.violation('journal-vs-ledger', f'journal {len(files)} entries vs {len(applied)} applied replies')
        res.count('journal_entries_checked', len(files))
        if self.nontrivial:
            res.see('nontrivial', h64([shape, sim.events]))


def make_monitors():
    return [C03Monitor()]


def classify(clause, detail, sim):
    return 'C03/' + clause


def profile(rng):
    p = {k: (dict(v) if isinstance(v, dict) else v) for k, v in simfarm.DEFAULT_PROFILE.items()}
    p['weights']['rerun_inflight'] = rng.choice([0.6, 1.5, 3.0])
    p['weights']['connect'] = rng.choice([1.0, 3.0])
    p['p_dbfault'] = rng.choice([0.0, 0.05, 0.15])
    return p


OPTS = {'profile': profile, 'lengths': [30, 60, 100, 150]}


def plan(tier, seed):
    return [{'seed': seed * 1000 + 300 + i, 'budget': BUDGET[tier]} for i in range(16)]


def run_shard(spec):
    boot.init()
    opts = dict(OPTS)
    if spec['tier'] == 'thorough':
        opts['sizes'] = [3, 4, 5, 6, 8, 10, 12, 16, 20]
        opts['lengths'] = [60, 100, 200, 400]
    return simprops.shard_loop(spec, ID, make_monitors, classify, opts)


def replay(witness):
    boot.init()
    return simprops.replay_witness(witness, make_monitors, ID, classify)
