'''C18 - the execution history records every run once; queries return the exact window'''

import datetime
import glob
import json
import os
import random
import shutil

from .. import boot
from ..result import Result, h64, keep_going

ID = 'C18'
LEVEL = 'exploration'
NONTRIVIAL = 'nontrivial'
UTC = datetime.timezone.utc
RULE = (
    'journals of 5-60 entries whose completion times are drawn at any time of day across hours, days, month and '
    'year boundaries and leap days (clustered so that windows cut through busy days) are written through the real '
    'schedule.complete -> chronicle.append path under an injected clock, with outcomes success/failure/invalid and '
    'several entries per (run id, day) file. (append) after every append the journal files are read back by the '
    'monitor: the multiset of stored entries equals everything appended so far. (query) for 20-60 windows per '
    'journal in the three shapes of the statement - (after, before), before only (+/- limit), limit only with '
    '"now" injected - chronicle.find and the front-end entries fe.api.schedule.succeeded/failed are compared with '
    'a brute-force filter of everything appended: same entries, strictly inside the bounds, requested outcome, '
    'newest first (ties free), truncated to the newest `limit`. non-trivial = window whose upper bound has a time '
    'of day earlier than some matching entry of an earlier day, or whose lower bound falls inside a day that has '
    'matching entries; distinct = hash(journal, window)'
)
ASSUMPTIONS = [
    'the (after only, limit) shape ("oldest first" rule of the docstring) is outside the statement and only counted',
    'completion times are timezone aware UTC, as schedule.complete produces them',
]
FLOORS = {
    'quick': {'journals': 100, 'queries_checked': 3000, 'appends_checked': 1500, 'nontrivial': 500},
    'thorough': {'journals': 3000, 'queries_checked': 100000, 'nontrivial': 20000},
}
BUDGET = {'quick': 22.0, 'thorough': 420.0}
MANIFEST = dict(
    category='exploration',
    technique='runtime oracle: brute-force window filter over the recorded append log vs chronicle.find / fe.api.schedule, read-back of journal files after every append',
    text=(
        'Thousands of generated journals and windows (bounds at arbitrary times of day, spanning month/year ends) '
        'are pushed through the real append and find code; a 10-line brute-force filter over the harness\'s own '
        'append log is the oracle. The statement is a for-all over completion-time sets and windows, so breadth of '
        'generated histories is the reachable level.'
    ),
    design='DESIGN.md §2 C18',
    note='Trusted base: CPython datetime/json, the harness. The exactly-once append per applied reply is co-checked on the simulated farm by C03/C05.',
)


def plan(tier, seed):
    return [{'seed': seed * 1000 + i, 'budget': BUDGET[tier]} for i in range(16)]


class Clock:
    now = datetime.datetime(2025, 1, 1, tzinfo=UTC)


def install_clock(*modules_with_class, shims=()):
    class VDT(datetime.datetime):
        @classmethod
        def now(cls, tz=None):
            n = Clock.now
            return cls(n.year, n.month, n.day, n.hour, n.minute, n.second, n.microsecond, tzinfo=tz)

    for m in modules_with_class:
        m.datetime = VDT  # modules that did `from datetime import datetime`
    import types  # pylint: disable=import-outside-toplevel

    ns = types.SimpleNamespace(datetime=VDT, UTC=UTC, timedelta=datetime.timedelta, timezone=datetime.timezone, date=datetime.date, time=datetime.time)
    for m in shims:
        m.datetime = ns  # modules that did `import datetime`
    return VDT


def gen_times(rng, n):
    '''completion instants: clusters around a few anchor days incl. month/year ends'''
    anchors = []
    base = datetime.datetime(rng.choice([2023, 2024, 2025, 2026]), rng.randint(1, 12), rng.randint(1, 28), tzinfo=UTC)
    specials = [
        datetime.datetime(2024, 2, 29, tzinfo=UTC), datetime.datetime(2024, 12, 31, tzinfo=UTC),
        datetime.datetime(2025, 1, 1, tzinfo=UTC), datetime.datetime(2025, 3, 31, tzinfo=UTC),
        datetime.datetime(2025, 3, 1, tzinfo=UTC),
    ]
    anchors.append(base)
    if rng.random() < 0.5:
        anchors.append(rng.choice(specials))
    span = rng.choice([1, 2, 3, 5, 10, 40, 400])
    out = []
    for _ in range(n):
        a = rng.choice(anchors)
        d = a + datetime.timedelta(days=rng.randint(0, span))
        k = rng.random()
        if k < 0.1:
            t = (0, 0, 0)
        elif k < 0.2:
            t = (23, 59, 59)
        else:
            t = (rng.randint(0, 23), rng.randint(0, 59), rng.randint(0, 59))
        us = rng.choice([0, 0, 0, rng.randint(1, 999999)])
        out.append(d.replace(hour=t[0], minute=t[1], second=t[2], microsecond=us))
    if rng.random() < 0.3 and out:
        out.append(out[0])  # an exact tie
    return sorted(out)


def read_journal(dbs):
    out = []
    for fn in glob.glob(os.path.join(dbs, 'chronicles', '*', '*', '*', '*.json')):
        with open(fn, 'rt', encoding='utf-8') as f:
            out.extend(json.load(f))
    return out


def ekey(e):
    return (e['task'], e['target'], int(e['runid']), e['status'], e['timing']['completed'])


def parse(s):
    return datetime.datetime.fromisoformat(s)


def brute(log, after, before, limit, status):
    hit = [e for e in log if e['status'] == status and (after is None or after < parse(e['timing']['completed'])) and parse(e['timing']['completed']) < before]
    hit.sort(key=lambda e: parse(e['timing']['completed']), reverse=True)
    return hit


def compare(got, want_all, limit):
    '''None if `got` is an acceptable answer: the newest `limit` of want_all, newest first, ties free'''
    want = want_all if limit is None else want_all[:limit]
    gk = [ekey(e) for e in got]
    if len(set(gk)) != len(gk):
        return 'an entry is returned twice'
    allowed = {ekey(e) for e in want_all}
    extra = [k for k in gk if k not in allowed]
    if extra:
        return f'{len(extra)} returned entries do not match the query, e.g. {extra[0]}'
    gt = [parse(e['timing']['completed']) for e in got]
    wt = [parse(e['timing']['completed']) for e in want]
    if any(gt[i] < gt[i + 1] for i in range(len(gt) - 1)):
        return 'not newest first'
    if gt != wt:
        miss = [ekey(e) for e in want if ekey(e) not in set(gk)]
        return (f'returned {len(got)} entries, expected {len(want)}; '
                + (f'missing e.g. {miss[0]}' if miss else 'completion times differ from the expected newest entries'))
    return None


class Journal:
    '''writes entries through the real schedule.complete -> chronicle.append'''

    def __init__(self, root):
        import dawgie.context  # pylint: disable=import-outside-toplevel
        import dawgie.pl.dag  # pylint: disable=import-outside-toplevel
        import dawgie.pl.schedule as sch  # pylint: disable=import-outside-toplevel
        import dawgie.pl.logger.chronicle as chron  # pylint: disable=import-outside-toplevel
        import dawgie.fe.api.schedule as api  # pylint: disable=import-outside-toplevel

        self.sch, self.chron, self.api, self.ctx = sch, chron, api, dawgie.context
        self.root = root
        self.n = 0
        self.Node = dawgie.pl.dag.Node

        class Alg:
            def asstring(self):
                return '1.0.0'

        self.alg = Alg()

    def fresh(self):
        self.n += 1
        dbs = os.path.join(self.root, f'j{self.n}')
        os.makedirs(dbs)
        self.ctx.data_dbs = dbs
        self.ctx.git_rev = 'rev'
        self.log = []
        return dbs

    def complete(self, when, task, target, runid, status, via_schedule=True):
        Clock.now = when
        st = {'success': self.sch.State.success, 'failure': self.sch.State.failure, 'invalid': self.sch.State.invalid}[status]
        if via_schedule:
            job = self.Node(task)
            job.set('todo', set())
            job.set('doing', {target})
            job.set('alg', self.alg)
            self.sch.que.append(job)
            self.sch.complete(job, runid, target, {'started': when - datetime.timedelta(seconds=5)}, st)
        else:
            self.chron.append(
                {'changeset': 'rev', 'runid': runid, 'status': status, 'target': target, 'task': task,
                 'timing': {'completed': self.chron.datetime.fromisoformat(when.isoformat())}, 'version': '1.0.0'}
            )
        del self.sch.err[:]
        del self.sch.suc[:]


def run_journal(j, rng, res, case=None):
    '''one journal + its windows; returns list of (clause, detail, witness-case)'''
    # pylint: disable=too-many-locals,too-many-branches,too-many-statements
    bad = []
    dbs = j.fresh()
    if case is None:
        n = rng.choice([5, 10, 20, 40, 60])
        times = gen_times(rng, n)
        ents = []
        for i, t in enumerate(times):
            ents.append(
                {
                    'when': t.isoformat(), 'task': f'tk{rng.randint(0, 3)}.a{i}',  # unique per entry: identifies it in answers
                    'target': f'T{rng.randint(0, 2)}',
                    'runid': rng.choice([1, 2, 3, 17]) if rng.random() < 0.7 else 100 + i,
                    'status': rng.choice(['success', 'success', 'success', 'failure', 'failure', 'invalid']),
                    'via_schedule': rng.random() < 0.8,
                }
            )
        rng.shuffle(ents) if rng.random() < 0.3 else None
        case = {'entries': ents, 'windows': None}
    log = []
    generating = case['windows'] is None
    n_ent = len(case['entries'])
    # queries are also asked *between* appends (a reader polls while the pipeline keeps appending): an answer must
    # reflect every append made so far, also one that rewrote an existing <run id>.json of a day already queried
    if generating:
        mid_at = set(rng.sample(range(1, n_ent), min(n_ent - 1, rng.choice([0, 2, 4, 8])))) if n_ent > 1 else set()
        asked = []
    else:
        mid_at = {w['at'] for w in case['windows'] if w.get('at') is not None and w['at'] < n_ent}
        asked = None
    for ent in case['entries']:
        when = datetime.datetime.fromisoformat(ent['when'])
        j.complete(when, ent['task'], ent['target'], ent['runid'], ent['status'], ent['via_schedule'])
        log.append(ent)
        res.count('appends_checked')
        stored = sorted((e['task'], e['target'], int(e['runid']), e['status'], parse(e['timing']['completed'])) for e in read_journal(dbs))
        want = sorted((e['task'], e['target'], int(e['runid']), e['status'], datetime.datetime.fromisoformat(e['when'])) for e in log)
        if stored != want:
            bad.append(('append-keeps-everything', f'after {len(log)} appends the journal files hold {len(stored)} entries; '
                        f'missing={[x for x in want if x not in stored][:2]} extra={[x for x in stored if x not in want][:2]}', dict(case, windows=[])))
            return bad, case
        if len(log) in mid_at:
            cur = read_journal(dbs)
            if generating:
                tms = sorted(parse(e['timing']['completed']) for e in cur)
                wins = [dict(gen_window(rng, tms), at=len(log)) for _ in range(rng.choice([1, 2, 3]))]
                asked.extend(wins)
            else:
                wins = [w for w in case['windows'] if w.get('at') == len(log)]
            for win in wins:
                res.count('mid_history_queries')
                _ask(j, win, cur, case, res, bad, asked if generating else case['windows'])
    stored = read_journal(dbs)
    times = sorted(parse(e['timing']['completed']) for e in stored)
    if case['windows'] is None:
        wins = []
        for _ in range(rng.choice([20, 40, 60])):
            wins.append(gen_window(rng, times))
        case['windows'] = asked + wins
    for win in case['windows']:
        if win.get('at') is not None and win['at'] < n_ent:
            continue
        _ask(j, win, stored, case, res, bad, case['windows'])
    return bad, case


def _ask(j, win, stored, case, res, bad, history):
    '''one query against the brute-force filter of what is stored now; history = every window of this journal in
    the order asked (a witness keeps the mid-history queries that came first: code under test may cache answers)'''
    # pylint: disable=too-many-locals,too-many-branches,too-many-arguments,too-many-positional-arguments
    if True:  # pylint: disable=using-constant-test
        after = datetime.datetime.fromisoformat(win['after']) if win.get('after') else None
        before = datetime.datetime.fromisoformat(win['before']) if win.get('before') else None
        limit = win.get('limit')
        now = datetime.datetime.fromisoformat(win['now'])
        Clock.now = now
        succ = win['succeeded']
        status = 'success' if succ else 'failure'
        eff_before = before if before is not None else now
        want_all = brute(stored, after, eff_before, limit, status)
        shape = ('both' if after and before else 'before' if before else 'limit') + ('+limit' if limit and not (after and before) else '')
        res.count('queries_checked')
        res.count('shape_' + shape)
        eff_limit = None if (after is not None and before is not None) else limit
        try:
            if win.get('api'):
                fn = j.api.succeeded if succ else j.api.failed
                ret = fn(
                    after=[after.isoformat()] if after else None, before=[before.isoformat()] if before else None,
                    limit=[str(limit)] if limit is not None else None,
                )
                got = json.loads(ret)
                got = got['content'] if isinstance(got, dict) and 'content' in got else got
                res.count('api_queries')
            else:
                got = j.chron.find(after=after, before=before, limit=limit, succeeded=succ)
        except Exception as e:  # pylint: disable=broad-exception-caught
            bad.append(('query-answers', f'find({win}) raised {type(e).__name__}: {e}', dict(case, windows=_upto(history, win))))
            return
        why = compare(got, want_all, eff_limit)
        # non-trivial: the upper bound's time of day cuts into an earlier day, or the lower bound splits a day
        nt = False
        bt = eff_before.time()
        for e in want_all:
            c = parse(e['timing']['completed'])
            if c.date() < eff_before.date() and c.time() > bt:
                nt = True
            if after is not None and c.date() == after.date():
                nt = True
        if nt:
            res.see('nontrivial', h64([case['entries'], win]))
        if why:
            mech = None
            bad.append(('query-exact-window' + ('-api' if win.get('api') else ''),
                        f'{"fe.api.schedule" if win.get("api") else "chronicle.find"}(after={after}, before={before}, limit={limit}, '
                        f'succeeded={succ}) with now={now}: {why}', dict(case, windows=_upto(history, win))))


def _upto(history, win):
    mids = [w for w in history if w.get('at') is not None and w is not win and (win.get('at') is None or w['at'] <= win['at'])]
    return mids + [win]


def gen_window(rng, times):
    lo, hi = times[0], times[-1]
    span = max((hi - lo).total_seconds(), 3600.0)

    def pick():
        k = rng.random()
        if k < 0.35:
            t = rng.choice(times) + datetime.timedelta(seconds=rng.choice([-1, 0, 1, 3600, -3600, 30000, -30000]))
        else:
            t = lo + datetime.timedelta(seconds=rng.uniform(-0.1, 1.1) * span)
        return t.replace(microsecond=0) if rng.random() < 0.7 else t

    shape = rng.random()
    now = hi + datetime.timedelta(seconds=rng.choice([1, 60, 86400, 40 * 86400]))
    if rng.random() < 0.2:
        now = pick()
    win = {'succeeded': rng.random() < 0.7, 'now': now.isoformat(), 'api': rng.random() < 0.25}
    if shape < 0.5:
        a, b = sorted([pick(), pick()])
        if a == b:
            b = a + datetime.timedelta(hours=5)
        win.update(after=a.isoformat(), before=b.isoformat())
        if rng.random() < 0.3:
            win['limit'] = rng.randint(1, 5)  # ignored by rule 4
    elif shape < 0.8:
        win.update(before=pick().isoformat())
        if rng.random() < 0.6:
            win['limit'] = rng.randint(1, 12)
    else:
        win['limit'] = rng.randint(1, 12)
    return win


def setup():
    import dawgie.pl.schedule as sch  # pylint: disable=import-outside-toplevel
    import dawgie.pl.logger.chronicle as chron  # pylint: disable=import-outside-toplevel
    import dawgie.fe.api.schedule as api  # pylint: disable=import-outside-toplevel

    install_clock(chron, api, shims=(sch,))
    root = boot.scratch('c18')
    return Journal(root)


def run_shard(spec):
    boot.init()
    res = Result()
    rng = random.Random(spec['seed'])
    j = setup()
    n = 0
    while keep_going(res, spec):
        bad, case = run_journal(j, rng, res)
        n += 1
        res.count('evaluations')
        res.count('journals')
        if n <= 2:
            res.sample({'entries': case['entries'][:6], 'n_entries': len(case['entries']), 'windows': case['windows'][:4]})
        seen = set()
        for clause, detail, wit in bad:
            if clause in seen:
                continue
            seen.add(clause)
            res.violation(clause, detail, wit, mechanism='C18/' + clause)
        shutil.rmtree(j.ctx.data_dbs, ignore_errors=True)
    return res


def replay(witness):
    boot.init()
    res = Result()
    j = setup()
    bad, _ = run_journal(j, random.Random(0), res, case=witness)
    for clause, detail, wit in bad:
        res.violation(clause, detail, witness, mechanism='C18/' + clause)
    res.count('evaluations')
    return res
