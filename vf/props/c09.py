'''C09 - the derived task graph is faithful to the declared dependencies'''

import random

from .. import aegen, boot
from ..result import CaseTimeout, Result, deadline, keep_going

ID = 'C09'
LEVEL = 'exploration'
NONTRIVIAL = 'nontrivial'
RULE = (
    'seeded random acyclic engines (both package styles; chains, diamonds, fans, '
    'ALG/SV/V references mixed, feedback, 2-14 algorithms) are written to disk, '
    'scanned and handed to the real dag.Construct; its at/svt/tt/vt trees are walked '
    'by the monitor and compared with a reference computed from the spec alone. '
    'non-trivial = engine with a transitive (depth>=2) ancestor; distinct = shape hash '
    '(edge list, kinds, value counts, style)'
)
ASSUMPTIONS = [
    'names are [A-Za-z0-9_] (dot/pydot quoting of other characters is not exercised)',
    'SVG rendering by dot is replaced except for the thorough-tier sample; Node.graph still runs',
]
FLOORS = {
    'quick': {'evaluations': 2000, 'nontrivial': 300, 'clause_ancestry': 2000},
    'thorough': {'evaluations': 30000, 'nontrivial': 3000},
}
BUDGET = {'quick': 22.0, 'thorough': 420.0}
CASE_DEADLINE = 20.0  # bounded-progress form of 'construction terminates' (10^4 x the typical cost)


def plan(tier, seed):
    n = 16
    return [{'seed': seed * 1000 + i, 'budget': BUDGET[tier]} for i in range(n)]


def _walk(roots):
    '''own traversal: (nodes by tag, edge set, identity clashes)'''
    nodes, edges, clashes = {}, set(), []
    stack = list(roots)
    seen = set()
    while stack:
        n = stack.pop()
        if n.tag in nodes and nodes[n.tag] is not n:
            clashes.append(n.tag)
        nodes.setdefault(n.tag, n)
        if id(n) in seen:
            continue
        seen.add(id(n))
        for c in list(n):
            edges.add((n.tag, c.tag))
            stack.append(c)
    return nodes, edges, clashes


def _closure(edges):
    par = {}
    for p, c in edges:
        par.setdefault(c, set()).add(p)
    out = {}

    def anc(x):
        if x not in out:
            out[x] = set()
            for p in par.get(x, ()):
                out[x].add(p)
                out[x] |= anc(p)
        return out[x]

    for x in list(par):
        anc(x)
    return out


def check_engine(spec, facs, res, real_dot=False):
    '''run the monitor on one engine; returns list of (clause, detail)'''
    # pylint: disable=too-many-locals,too-many-branches,too-many-statements
    import dawgie.pl.dag  # pylint: disable=import-outside-toplevel

    bad = []
    ref = aegen.Reference(spec)
    con = dawgie.pl.dag.Construct(facs)
    res.count('anchor_Construct')

    def cmp(clause, got, want):
        res.count('clause_' + clause)
        if got != want:
            extra = sorted(got - want)[:6] if isinstance(got, set) else got
            miss = sorted(want - got)[:6] if isinstance(got, set) else want
            bad.append((clause, f'unexpected={extra} missing={miss}'))

    # algorithm granularity
    nodes, edges, clashes = _walk(con.at)
    cmp('alg-nodes', set(nodes), set(ref.algs))
    cmp('alg-one-object-per-tag', set(clashes), set())
    cmp('alg-edges', {e for e in edges if e[0] != e[1]}, set(ref.aedges))
    for tag, n in nodes.items():
        if tag not in ref.algs:
            continue
        cmp('ancestry', set(n.get('ancestry') or ()), ref.anc[tag])
        cmp('parents', {p.tag for p in (n.get('parents') or ())}, ref.parents[tag])
        cmp(
            'alg-feedback-attr',
            {f.tag for f in n.get('feedback')},
            {'.'.join(v.split('.')[:2]) for v in ref.fb_values[tag]},
        )
        if n.get('alg') is None or n.get('alg').name() != tag.split('.')[1]:
            bad.append(('alg-attr', f'{tag} carries alg {n.get("alg")}'))
        want_fac = aegen.FACTORY_OF[ref.kind[tag]]
        if n.get('factory') is None or n.get('factory').__name__ != want_fac:
            bad.append(('factory-attr', f'{tag} carries factory {n.get("factory")}'))
        res.count('clause_attrs')
    # state vector granularity
    nodes, edges, clashes = _walk(con.svt)
    allsv = {'.'.join(v.split('.')[:3]) for vs in ref.values.values() for v in vs}
    cmp('sv-nodes', set(nodes), allsv)
    cmp('sv-edges', {e for e in edges if e[0] != e[1]}, set(ref.svedges))
    cmp('sv-one-object-per-tag', set(clashes), set())
    # value granularity
    nodes, edges, clashes = _walk(con.vt)
    allv = {v for vs in ref.values.values() for v in vs}
    cmp('v-nodes', set(nodes), allv)
    cmp('v-edges', edges, set(ref.vedges))
    cmp('v-one-object-per-tag', set(clashes), set())
    vanc = _closure(ref.vedges)
    vpar = {}
    for p, c in ref.vedges:
        vpar.setdefault(c, set()).add(p)
    for tag, n in nodes.items():
        cmp('v-ancestry', set(n.get('ancestry')), vanc.get(tag, set()))
        cmp('v-parents', {p.tag for p in n.get('parents')}, vpar.get(tag, set()))
    # task granularity (self loops carry no information)
    nodes, edges, clashes = _walk(con.tt)
    cmp('task-nodes', set(nodes), {t.split('.')[0] for t in ref.algs})
    cmp(
        'task-edges',
        {e for e in edges if e[0] != e[1]},
        {(p.split('.')[0], c.split('.')[0]) for p, c in ref.aedges if p.split('.')[0] != c.split('.')[0]},
    )
    # feedback map: every fed-back value -> one of its declared consumers
    fed = {}
    for t, vs in ref.fb_values.items():
        for v in vs:
            fed.setdefault(v, set()).add(t)
    cmp('feedback-keys', set(con.feedbacks), set(fed))
    for v, consumer in con.feedbacks.items():
        res.count('clause_feedback-consumer')
        if v in fed and '.'.join(consumer.split('.')[:2]) not in fed[v]:
            bad.append(('feedback-consumer', f'{v} mapped to {consumer}, declared {sorted(fed[v])}'))
    # Construct[...] lookup
    for tag in ref.algs:
        got = {n.tag for n in con[tag]}
        cmp('getitem', got, set(ref.values[tag]))
    if real_dot:
        res.count('real_dot_renderings')
    return ref, bad


def run_case(rng, root, res, real_dot=False):
    n = rng.choice([2, 3, 3, 4, 5, 6, 7, 8, 10, 12, 14])
    spec = aegen.generate(
        rng,
        n_algs=n,
        p_feedback=0.4,
        p_event=0.1,
        max_svs=rng.choice([1, 2, 3]),
        max_vals=rng.choice([1, 2, 3]),
    )
    ref = aegen.Reference(spec)
    try:
        with deadline(CASE_DEADLINE):
            facs = aegen.load(spec, root)
            ref, bad = check_engine(spec, facs, res, real_dot)
    except CaseTimeout:
        bad = [('construct-terminates', f'graph construction did not finish within {CASE_DEADLINE}s (typical: 1 ms)')]
    res.count('evaluations')
    res.see('shapes', ref.shape_hash())
    if any(ref.depth(t) >= 2 for t in ref.algs):
        res.see('nontrivial', ref.shape_hash())
        res.count('nontrivial_cases')
    if any(ref.fb_values[t] for t in ref.algs):
        res.count('with_feedback')
    res.sample(
        {
            'style': spec['style'],
            'algorithms': {t: ref.kind[t] for t in ref.order},
            'edges': sorted(ref.aedges),
            'feedback': {t: sorted(v) for t, v in ref.fb_values.items() if v},
        }
    )
    for clause, detail in bad:
        res.violation(clause, detail, {'spec': spec}, mechanism='C09/' + clause)
    return spec


def run_shard(spec):
    boot.init()
    res = Result()
    rng = random.Random(spec['seed'])
    root = boot.scratch('c09')
    real = None
    if spec['tier'] == 'thorough' and spec['index'] < 4:
        import dawgie.pl.dag  # pylint: disable=import-outside-toplevel

        real = dawgie.pl.dag.Construct.graph
        _setup_fe(root)
        for _ in range(12):
            run_case(rng, root, res, real_dot=True)
    boot.stub_dot()
    while keep_going(res, spec):
        run_case(rng, root, res)
        if res.counters['evaluations'] % 200 == 0:
            _prune(root)
    return res


def _setup_fe(root):
    import os  # pylint: disable=import-outside-toplevel
    import dawgie.context  # pylint: disable=import-outside-toplevel

    dawgie.context.fe_path = os.path.join(root, 'fe')
    os.makedirs(dawgie.context.fe_path, exist_ok=True)


def _prune(root):
    import os  # pylint: disable=import-outside-toplevel
    import shutil  # pylint: disable=import-outside-toplevel
    import dawgie.context  # pylint: disable=import-outside-toplevel

    for d in os.listdir(root):
        if d.startswith('ae_') and d != dawgie.context.ae_base_package:
            shutil.rmtree(os.path.join(root, d), ignore_errors=True)


def replay(witness):
    boot.init()
    boot.stub_dot()
    res = Result()
    root = boot.scratch('c09r')
    spec = witness['spec']
    try:
        with deadline(CASE_DEADLINE):
            facs = aegen.load(spec, root)
            _ref, bad = check_engine(spec, facs, res)
    except CaseTimeout:
        bad = [('construct-terminates', f'graph construction did not finish within {CASE_DEADLINE}s (typical: 1 ms)')]
    for clause, detail in bad:
        res.violation(clause, detail, witness, mechanism='C09/' + clause)
    return res
