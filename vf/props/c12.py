'''C12 - a submitted update takes effect exactly when its priority allows'''

import random

from .. import boot
from ..result import Result, h64, keep_going

fsmsim = None  # imported after boot.init()

ID = 'C12'
LEVEL = 'exploration'
NONTRIVIAL = 'nontrivial'
RANK = {'now': 3, 'crew_idle': 2, 'doing_empty': 1, 'todo_empty': 0}
RULE = (
    'real FSM + real fe.submit / fe.api.submit Process (git steps stubbed to succeed/fail) on the virtual reactor. The '
    'three waiter pollers run cooperatively: dawgie.pl.state.time.sleep raises Pause, so one call of '
    'is_crew_done / is_doing_done / is_todo_done is exactly one evaluation round of its polling loop; the workload '
    'places every poll tick and every delivery of a finished poller\'s callback. Histories interleave submissions of '
    'all priorities (stronger overtaking weaker, repeated over >= 3 reload cycles), changes of farm._busy / '
    'executing work / the work queue, poll ticks, callback deliveries, completion of reload/load/introspection '
    'steps and idle-archive dispatch ticks. A wrapper on the instance\'s update_trigger records, at the instant of '
    'each call, the strongest priority accepted since the last reset and farm._busy, schedule.view_doing(), '
    'schedule.que, state and activity. Clauses: the condition of that priority holds at that instant (NOW: none; '
    'CREW: no busy worker; DOING: nothing executing; TODO: empty queue); at most one call per reload cycle; a '
    'submission while the pipeline is not active is refused and changes nothing; bounded liveness: when a '
    'submission is pending, the pipeline is at rest in running, everything is idle, and every live poller has been '
    'granted 3 ticks with all callbacks delivered, the call must have happened. non-trivial = history in which a '
    'weaker waiter was overtaken by a stronger submission or a later cycle reused a priority; distinct = hash(history)'
)
ASSUMPTIONS = [
    'pollers are loops "while <condition>: time.sleep()" (one call == one evaluation round); a poller with another shape would still be driven, one call per tick',
    'liveness only in bounded form (3 granted ticks after the condition holds at rest)',
    'git and the compliance spawn of the submit tool are replaced by success/failure stubs',
    'thread results reach the reactor in the order the threads finished (callFromThread is FIFO) and a load / reload / archive step outlasts one poll period (0.2 s)',
]
FLOORS = {
    'quick': {'histories': 600, 'submissions_accepted': 1500, 'trigger_calls_checked': 800, 'liveness_checks': 600, 'nontrivial': 200},
    'thorough': {'histories': 20000, 'trigger_calls_checked': 30000, 'nontrivial': 8000},
}
BUDGET = {'quick': 22.0, 'thorough': 420.0}
MANIFEST = dict(
    category='exploration',
    technique='runtime monitor on FSM.update_trigger (snapshot of crew / executing / queue / priority at the instant of the call) with cooperative, workload-scheduled poller ticks and callback deliveries; bounded-liveness clock in granted ticks',
    text=(
        'The property is about histories of submissions interleaved with queue progress and with the waiter threads; '
        'the harness schedules every poll round and callback delivery explicitly, so the interleavings that matter '
        '(overtaking, cancellation, reuse in a later cycle) are produced deliberately and replayably.'
    ),
    design='DESIGN.md §2 C12',
    note='Trusted base: the cooperative emulation of the poller threads (see ASSUMPTIONS), the harness stubs.',
)
LIFE_STEPS = {'_pipeline', '_reload', '_archive', '_navel_gaze'}


def plan(tier, seed):
    return [{'seed': seed * 1000 + i, 'budget': BUDGET[tier]} for i in range(16)]


_SIM = []


def get_sim():
    global fsmsim  # pylint: disable=global-statement
    if not _SIM:
        from .. import fsmsim as _f, world  # pylint: disable=import-outside-toplevel
        from . import c10  # pylint: disable=import-outside-toplevel

        fsmsim = _f
        sim = c10.get_sim()  # same stubs (dot parse cache, no rendering)
        _SIM.append(sim)
        del world
    return _SIM[0]


class Env:
    '''farm / schedule state the waiters poll'''

    def __init__(self, sim):
        import dawgie.pl.dag as dag  # pylint: disable=import-outside-toplevel
        from dawgie.pl.jobinfo import State  # pylint: disable=import-outside-toplevel

        self.sim = sim
        self.n_run = dag.Node('tk.exec')
        self.n_run.set('status', State.running)
        self.n_run.set('doing', {'T'})
        self.n_run.set('todo', set())
        self.n_run.set('level', 0)
        self.n_wait = dag.Node('tk.pend')
        self.n_wait.set('status', State.waiting)
        self.n_wait.set('doing', set())
        self.n_wait.set('todo', {'T'})
        self.n_wait.set('level', 1)
        self.busy = self.doing = self.todo = False
        self.version = 0
        self.apply()

    def apply(self):
        farm, sch = self.sim.farm, self.sim.sch
        farm._busy[:] = ['tk.exec[T]'] if self.busy else []  # pylint: disable=protected-access
        sch.que = ([self.n_run] if self.doing else []) + ([self.n_wait] if self.todo else [])
        self.last = (self.busy, self.doing, self.todo)

    def sync(self):
        '''the real code changes these too (farm.clear() at load): follow it'''
        farm, sch = self.sim.farm, self.sim.sch
        now = (bool(farm._busy), any(j is self.n_run for j in sch.que), any(j is self.n_wait for j in sch.que))  # pylint: disable=protected-access
        if now != getattr(self, 'last', now):
            self.version += 1
        self.busy, self.doing, self.todo = now
        self.last = now

    def set(self, what, val):
        self.sync()
        if getattr(self, what) != val:
            self.version += 1
        setattr(self, what, val)
        self.apply()

    def idle(self):
        self.sync()
        if self.busy or self.doing or self.todo:
            self.version += 1
        self.busy = self.doing = self.todo = False
        self.apply()


class Monitor:
    # pylint: disable=too-many-instance-attributes
    def __init__(self, sim, res):
        self.sim, self.res = sim, res
        fsm = sim.fsm
        self.bad = []
        self.pending = []  # priorities accepted since the last reset
        self.calls_this_cycle = 0
        self.cycles = 0
        self.trigger_failed_not_running = 0
        self.calls = 0
        self.flags = set()
        self.delivering = None
        self.env = None
        orig_update = fsm.update_trigger
        orig_info = fsm.set_submit_info
        orig_reset = fsm.reset
        mon = self

        def update_trigger(*a, **k):
            mon.on_trigger()
            try:
                r = orig_update(*a, **k)
            except BaseException:  # pylint: disable=broad-exception-caught
                # the call did not take effect (no reload was triggered)
                if fsm.state != 'running':
                    mon.trigger_failed_not_running += 1
                raise
            mon.calls_this_cycle += 1
            if mon.calls_this_cycle > 1:
                mon.bad.append(('fires-once-per-cycle', f'update_trigger took effect {mon.calls_this_cycle}x in one reload cycle (submissions {mon.pending})'))
            return r

        def set_submit_info(changeset, priority):
            mon.pending.append(str(priority))
            mon.res.count('submissions_accepted')
            return orig_info(changeset, priority)

        def reset():
            r = orig_reset()
            if mon.pending:
                mon.cycles += 1
            if len(set(mon.pending)) > 1:
                mon.flags.add('mixed-priorities-in-cycle')
            mon.pending = []
            mon.calls_this_cycle = 0
            return r

        fsm.update_trigger = update_trigger
        fsm.set_submit_info = set_submit_info
        fsm.reset = reset
        # the machine resolves 'before=reset' by name on the model at call time

    def strongest(self):
        return max(self.pending, key=lambda p: RANK.get(p, 0)) if self.pending else None

    def condition(self, prio):
        sim = self.sim
        if prio == 'now':
            return True, ''
        if prio == 'crew_idle':
            return not sim.farm._busy, f'busy workers {sim.farm._busy}'  # pylint: disable=protected-access
        if prio == 'doing_empty':
            return not sim.sch.view_doing(), f'executing {sim.sch.view_doing()}'
        return not sim.sch.que, f'work queue {[j.tag for j in sim.sch.que]}'

    def on_trigger(self):
        fsm = self.sim.fsm
        self.calls += 1
        self.res.count('trigger_calls_checked')
        prio = self.strongest()
        if prio is None:
            self.bad.append(('trigger-needs-submission', f'update_trigger called with no submission pending (state {fsm.state})'))
            return
        ok, why = self.condition(prio)
        if not ok:
            p = self.delivering
            mech = None
            if p is not None and p.env_at_finish is not None and p.env_at_finish != self.env.version:
                # the poller saw its condition hold; the farm changed before its callback reached the reactor
                mech = 'C12/condition-changed-between-poll-and-callback'
            self.bad.append(('fires-only-when-condition-holds', f'update_trigger called for priority {prio} (submissions this cycle: {self.pending}) while {why}', mech))


def tick(p, env):
    if not hasattr(p, 'env_at_finish'):
        p.env_at_finish = None
    if p.tick() and p.env_at_finish is None:
        p.env_at_finish = env.version


def deliver(p, mon, sim):
    if not hasattr(p, 'env_at_finish'):
        p.env_at_finish = None
    mon.delivering = p
    try:
        p.deliver()
        sim.drain_reactor()
    finally:
        mon.delivering = None


def run_history(sim, hseed, res, thorough=False):
    # pylint: disable=too-many-locals,too-many-branches,too-many-statements
    rng = random.Random(hseed)
    fsm = sim.new_fsm(at_rest=True)
    sim.world.ctx.db_lock = False
    import dawgie.db  # pylint: disable=import-outside-toplevel

    dawgie.db.open()
    fsmsim.install_pollers(sim)
    env = Env(sim)
    mon = Monitor(sim, res)
    mon.env = env
    trace = []
    n = rng.choice([8, 14, 24, 40]) if not thorough else rng.choice([14, 24, 40, 80])
    prios = list(RANK)
    refused_checked = 0
    for _ in range(n):
        k = rng.random()
        life = [p for p in sim.rx.parked if p.name in LIFE_STEPS]
        live = [p for p in sim.pollers if not p.delivered]
        if k < 0.28:
            prio = rng.choice(prios + ['todo_empty', 'doing_empty'])
            ok = rng.random() < 0.9
            api = rng.random() < 0.3
            op = ['submit', prio, ok, api]
            active = fsm.is_pipeline_active()
            before = sim.snapshot()
            npend = len(mon.pending)
            if mon.pending and RANK[prio] > max(RANK[p] for p in mon.pending):
                mon.flags.add('overtaken')
            if mon.cycles and prio in ('crew_idle', 'doing_empty', 'todo_empty'):
                mon.flags.add('reused-in-later-cycle')
            req = sim.submit(prio, ok=ok, api=api)
            if not active:
                refused_checked += 1
                res.count('refusals_checked')
                text = b''.join(req.written)
                if len(mon.pending) != npend or b'not active' not in text or sim.snapshot() != before:
                    mon.bad.append(('refused-unless-active', f'{op} while state={before[0]}/{before[1].name}: accepted={len(mon.pending) != npend} '
                                    f'answer={text[:80]!r} state after={sim.snapshot()[:2]}'))
        elif k < 0.46:
            what = rng.choice(['busy', 'doing', 'todo'])
            val = rng.random() < 0.5
            op = ['env', what, val]
            env.set(what, val)
        elif k < 0.70 and live:
            p = rng.choice(live)
            op = ['tick', p.name]
            tick(p, env)
        elif k < 0.84 and [p for p in live if p.finished]:
            # results of finished threads reach the reactor in the order they finished (callFromThread is FIFO)
            p = [p for p in live if p.finished][0]
            op = ['deliver', p.name]
            deliver(p, mon, sim)
        elif k < 0.95 and life:
            p = rng.choice(life)
            op = ['complete', p.name]
            # a load / reload / archive step outlasts a poll period (0.2 s): every live poller has polled meanwhile,
            # and whatever finished before this step is delivered before it
            for q in live:
                tick(q, env)
            for q in [q for q in sim.pollers if q.finished and not q.delivered]:
                deliver(q, mon, sim)
            if mon.bad:
                trace.append(op)
                break
            sim.rx.parked.remove(p)
            p.complete()
            sim.drain_reactor()
        elif not sim.sch.que:
            op = ['dispatch', rng.random() < 0.4]
            if op[1]:
                sim.farm.ARCHIVE = True
            sim.dispatch()
        else:
            op = ['noop']
        trace.append(op)
        env.sync()
        if mon.bad:
            break
    # ---- bounded liveness -------------------------------------------------------------------
    lost_mech = None
    if not mon.bad:
        env.idle()
        for _ in range(30):
            life = [p for p in sim.rx.parked if p.name in LIFE_STEPS]
            if not life:
                break
            p = life[0]
            sim.rx.parked.remove(p)
            p.complete()
            sim.drain_reactor()
        res.count('liveness_checks')
        # the cycle that is pending now (if any) must fire within 3 granted ticks
        for _round in range(3):
            for p in [p for p in sim.pollers if not p.delivered]:
                tick(p, env)
            for p in [p for p in sim.pollers if p.finished and not p.delivered]:
                deliver(p, mon, sim)
            for _ in range(30):
                life = [p for p in sim.rx.parked if p.name in LIFE_STEPS]
                if not life:
                    break
                p = life[0]
                sim.rx.parked.remove(p)
                p.complete()
                sim.drain_reactor()
            if mon.bad:
                break
        if not mon.bad and mon.pending and fsm.state == 'running' and fsm.is_pipeline_active():
            prio = mon.strongest()
            handles = {'crew_idle': fsm.crew_thread, 'doing_empty': fsm.doing_thread, 'todo_empty': fsm.todo_thread}
            live_kinds = {p.name for p in sim.pollers if not p.delivered}
            name = {'crew_idle': 'is_crew_done', 'doing_empty': 'is_doing_done', 'todo_empty': 'is_todo_done'}.get(prio)
            if mon.trigger_failed_not_running:
                lost_mech = 'C12/trigger-while-not-running'
            elif name and handles.get(prio) is not None and name not in live_kinds:
                lost_mech = 'C12/stale-waiter-handle'
            mon.bad.append(('pending-submission-fires', f'submissions {mon.pending} pending, pipeline at rest in running, everything idle for 3 poll rounds: '
                            f'update_trigger was never called (waiter handles crew={fsm.crew_thread is not None} doing={fsm.doing_thread is not None} '
                            f'todo={fsm.todo_thread is not None}, live pollers={sorted(live_kinds)}, triggers that raised outside running={mon.trigger_failed_not_running})'))
    try:
        dawgie.db.close()
    except Exception:  # pylint: disable=broad-exception-caught
        pass
    return mon, trace, lost_mech


def run_shard(spec):
    boot.init()
    boot.stub_dot()
    res = Result()
    sim = get_sim()
    rng = random.Random(spec['seed'])
    n = 0
    reported = set()
    while keep_going(res, spec):
        hseed = rng.getrandbits(48)
        mon, trace, lost_mech = run_history(sim, hseed, res, thorough=spec['tier'] == 'thorough')
        n += 1
        res.count('evaluations')
        res.count('histories')
        res.count('reload_cycles', mon.cycles)
        if mon.flags & {'overtaken', 'reused-in-later-cycle'}:
            res.see('nontrivial', h64([hseed]))
        for f in mon.flags:
            res.count('histories_' + f)
        if n <= 2:
            res.sample({'history_seed': hseed, 'operations': trace[:24], 'trigger_calls': mon.calls, 'cycles': mon.cycles})
        for item in mon.bad[:1]:
            clause, detail = item[0], item[1]
            mech = lost_mech if clause == 'pending-submission-fires' and lost_mech else (item[2] if len(item) > 2 and item[2] else 'C12/' + clause)
            if mech in reported and len(res.violations) > 6:
                continue
            reported.add(mech)
            res.violation(clause, detail, {'hseed': hseed, 'tier': spec['tier']}, mechanism=mech)
    return res


def replay(witness):
    boot.init()
    boot.stub_dot()
    res = Result()
    sim = get_sim()
    mon, _trace, lost_mech = run_history(sim, witness['hseed'], res, thorough=witness.get('tier') == 'thorough')
    for item in mon.bad[:1]:
        clause, detail = item[0], item[1]
        mech = lost_mech if clause == 'pending-submission-fires' and lost_mech else (item[2] if len(item) > 2 and item[2] else 'C12/' + clause)
        res.violation(clause, detail, witness, mechanism=mech)
    res.count('evaluations')
    return res
