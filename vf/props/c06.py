'''C06 - stored values come back intact, and only to their own author, version, target'''

import copy
import random

from .. import boot, netsim

dbsim = dbtypes = None  # imported after boot.init() (they import dawgie)
from ..result import Result, h64, keep_going

ID = 'C06'
LEVEL = 'exploration'
NONTRIVIAL = 'nontrivial'
RULE = (
    'histories (<= 45 operations) on the real shelve back end reached through the in-memory socket: Dataset.update '
    'with unique-id payloads of many picklable kinds, Dataset.load (own algorithm, and through ALG/SV/V references '
    'as a consumer task does), analysis gather (collect) and regression retreat (recede), db.remove, version bumps '
    'of algorithm / state vector / value, db.add, close+reopen; over colliding names (alg, alg2, a, ab; sv, sv1; '
    'v, val, v1, v10; same algorithm name in several tasks), targets that are prefixes of one another or contain '
    'spaces/parentheses, arbitrary run ids written in any order and overwritten. After every load the returned '
    'contents are compared with a reference dictionary keyed by (run, target, task, alg@ver, sv@ver, value@ver): '
    'entry of the requested run if present, else that of the highest run of the same identity and target, else the '
    'value object is untouched. non-trivial = load issued after a version bump / for an absent run / for a target '
    'without data while another target has data; distinct = hash(history seed, op index)'
)
ASSUMPTIONS = [
    'shelve back end only: dawgie/db/post/* needs a PostgreSQL server, which the sandbox does not have',
    'names do not contain the store\'s own separators (___version:, :parent___, .)',
    'one process plays foreman and worker; they share nothing but the (in-memory) socket, as in production',
]
FLOORS = {
    'quick': {'histories': 60, 'loads_checked': 400, 'values_compared': 1500, 'nontrivial': 150},
    'thorough': {'histories': 1500, 'loads_checked': 25000, 'nontrivial': 8000},
}
BUDGET = {'quick': 24.0, 'thorough': 600.0}
MANIFEST = dict(
    category='exploration',
    technique='runtime reference-model monitor: dictionary model of (run,target,identity@versions) -> unique-id content compared with every Dataset.load / collect / recede on the real shelve back end over generated operation histories',
    text=(
        'Isolation and round-trip are for-all statements over histories and identities; the monitor replays '
        'hundreds of generated histories with hostile names and version bumps against the real store and compares '
        'every load with a reference dictionary. Unique ids inside payloads identify exactly whose data a wrong '
        'load returned.'
    ),
    design='DESIGN.md §2 C06',
    note='Trusted base: CPython pickle, dbm.dumb, the harness model. PostgreSQL back end out of reach (no server).',
)


def plan(tier, seed):
    return [{'seed': seed * 1000 + i, 'budget': BUDGET[tier]} for i in range(16)]


_SIM = []


def get_sim():
    global dbsim, dbtypes  # pylint: disable=global-statement
    if not _SIM:
        from .. import dbsim as _dbsim, dbtypes as _dbtypes, world  # pylint: disable=import-outside-toplevel

        dbsim, dbtypes = _dbsim, _dbtypes

        w = world.World(fsm=False)
        _SIM.append(dbsim.DbSim(w))
    return _SIM[0]


def run_history(sim, hseed, res, max_ops=None, thorough=False):
    '''returns (bad list, info)'''
    # pylint: disable=too-many-locals,too-many-branches,too-many-statements
    rng = random.Random(hseed)
    schema = dbsim.Schema(rng, n_algs=rng.choice([2, 3, 4, 5]))
    targets = rng.sample(dbsim.NAMES['target'], rng.randint(2, 4))
    sim.fresh(targets[:-1])
    nops = rng.choice([15, 25, 45]) if not thorough else rng.choice([25, 45, 90])
    if max_ops is not None:
        nops = max_ops
    bad = []
    bumped_since = False
    history = []  # every content written so far
    trace = []
    info = {'ops': 0}
    for i in range(nops):
        k = rng.random()
        tk, an = rng.choice(schema.keys())
        tg = rng.choice(targets)
        op = None
        try:
            if k < 0.42 or not sim.model:
                run = rng.choice([1, 2, 3, 4, 5, 6, 12])
                a = schema.algs[(tk, an)]
                contents = {}
                for svn, s in a['svs'].items():
                    for vn in s['vals']:
                        if history and rng.random() < 0.25:
                            # content that is already in the store under some other (or this very) key
                            contents[(svn, vn)] = copy.deepcopy(rng.choice(history))
                            res.count('values_with_repeated_content')
                        else:
                            contents[(svn, vn)] = dbsim.payload(rng, sim.next_uid(f'{tk}.{an}.{svn}.{vn}@{tg}/{run}'))
                        history.append(copy.deepcopy(contents[(svn, vn)]))
                op = ['update', tk, an, tg, run]
                sim.update(schema, tk, an, tg, run, contents)
                res.count('updates')
                if rng.random() < 0.3:
                    scribble(res, contents)  # the author goes on editing its own object after storing it
            elif k < 0.72:
                run = rng.choice([1, 2, 3, 4, 5, 6, 7, 9, 12, 13])
                op = ['load', tk, an, tg, run]
                want = sim.expect_load(schema, tk, an, tg, run)
                got = sim.load(schema, tk, an, tg, run)
                res.count('loads_checked')
                nt = bumped_since or any(
                    (run, tg, schema.identity(tk, an, svn, vn)) not in sim.model for (svn, vn) in want
                )
                if nt:
                    res.see('nontrivial', h64([hseed, i]))
                cmp(bad, res, 'load', op, got, want)
                if rng.random() < 0.5:
                    scribble(res, got)
            elif k < 0.80:
                run = rng.choice([1, 2, 3, 6, 7, 13])
                level = rng.choice(['alg', 'sv', 'v'])
                op = ['load-via-' + level + '-ref', tk, an, tg, run]
                want = sim.expect_load(schema, tk, an, tg, run)
                got = sim.load_via_ref(schema, tk, an, tg, run, level)
                res.count('loads_checked')
                res.count('loads_via_reference')
                cmp(bad, res, 'load-via-ref', op, got, want)
                if rng.random() < 0.5:
                    scribble(res, got)
            elif k < 0.84:
                op = ['collect', tk, an]
                want = sim.expect_collect(schema, tk, an)
                got = sim.collect(schema, tk, an, 99)
                res.count('collects_checked')
                for tn in set(want) | set(got):
                    cmp(bad, res, 'collect', op + [tn], got.get(tn, {}), want.get(tn, {}), untouched_ok=False)
                    if rng.random() < 0.3:
                        scribble(res, got.get(tn, {}))
            elif k < 0.88:
                op = ['recede', tk, an, tg]
                if tg in sim.targets:
                    want = sim.expect_recede(schema, tk, an, tg)
                    got = sim.recede(schema, tk, an, tg)
                    res.count('recedes_checked')
                    for r in set(want) | set(got):
                        cmp(bad, res, 'recede', op + [r], got.get(r, {}), want.get(r, {}), untouched_ok=False)
            elif k < 0.93:
                op = ['bump'] + schema.bump(rng)
                bumped_since = True
                res.count('version_bumps')
            elif k < 0.96:
                keys = [kk for kk in sim.model]
                if keys:
                    kk = rng.choice(sorted(keys, key=repr))
                    ident = kk[2]
                    op = ['remove', kk[0], kk[1], ident[0], ident[1], ident[3], ident[5]]
                    sim.remove(kk[0], kk[1], ident[0], ident[1], ident[3], ident[5])
                    res.count('removes')
            elif k < 0.98:
                op = ['add-target', tg]
                sim.add_target(tg)
            else:
                op = ['reopen']
                sim.reopen()
                res.count('reopens')
        except (netsim.WouldBlock, netsim.PeerClosed) as e:
            bad.append(('operation-completes', f'{op}: {type(e).__name__}: {e}'))
        except Exception as e:  # pylint: disable=broad-exception-caught
            bad.append(('operation-completes', f'{op} raised {type(e).__name__}: {e}'))
        trace.append(op)
        info['ops'] = i + 1
        if bad:
            break
    info['trace'] = trace
    return bad, info


def scribble(res, got):
    '''what client code does with loaded values ("load the previous result, refine it in place, store it as
    the next run"): a loaded value is the caller's own copy, editing it must not change what a later load returns'''
    for g in got.values():
        if isinstance(g, dict) and 'data' in g:
            if isinstance(g['data'], list):
                g['data'].append('edited-by-client')
            elif isinstance(g['data'], dict):
                g['data']['edited-by-client'] = True
            g['uid'] = str(g.get('uid')) + '+edited-in-place-by-client-after-load'
            res.count('loaded_values_edited_in_place')


def cmp(bad, res, where, op, got, want, untouched_ok=True):
    for key in sorted(set(got) | set(want)):
        g = got.get(key, dbtypes.SENTINEL)
        w = want.get(key, dbtypes.SENTINEL)
        res.count('values_compared')
        if g == w:
            continue
        if w == dbtypes.SENTINEL:
            whose = g.get('uid') if isinstance(g, dict) else g
            bad.append(('only-own-data', f'{where} {op}: {key} should have been left untouched (nothing stored for this identity/target), got the data of {whose}'))
        elif g == dbtypes.SENTINEL:
            bad.append(('stored-comes-back', f'{where} {op}: {key} was left untouched, the store holds {w.get("uid") if isinstance(w, dict) else w}'))
        else:
            gu = g.get('uid') if isinstance(g, dict) else g
            wu = w.get('uid') if isinstance(w, dict) else w
            clause = 'only-own-data' if gu != wu else 'intact'
            bad.append((clause, f'{where} {op}: {key} returned {gu}, expected {wu}'))
        return


def run_shard(spec):
    boot.init()
    res = Result()
    rng = random.Random(spec['seed'])
    sim = get_sim()
    n = 0
    # at least 6 histories per shard even on a loaded machine (bounded by the runner's watchdog)
    while keep_going(res, spec) or n < 6:
        hseed = rng.getrandbits(48)
        bad, info = run_history(sim, hseed, res, thorough=spec['tier'] == 'thorough')
        n += 1
        res.count('evaluations')
        res.count('histories')
        res.count('operations', info['ops'])
        if n <= 2:
            res.sample({'history_seed': hseed, 'operations': info['trace'][:25]})
        for clause, detail in bad[:1]:
            res.violation(clause, detail, {'hseed': hseed, 'ops': info['ops'], 'tier': spec['tier']}, mechanism='C06/' + clause)
    return res


def replay(witness):
    boot.init()
    res = Result()
    sim = get_sim()
    bad, _info = run_history(sim, witness['hseed'], res, thorough=witness.get('tier') == 'thorough')
    for clause, detail in bad[:1]:
        res.violation(clause, detail, witness, mechanism='C06/' + clause)
    res.count('evaluations')
    return res
