'''C02 - reprocessing after a change is complete and minimal'''

from .. import boot, simfarm, simprops
from ..result import keep_going

ID = 'C02'
LEVEL = 'exploration'
NONTRIVIAL = 'nontrivial'
RULE = (
    '(scheduler level) simulated-farm histories over generated engines with value-level input declarations (ALG / '
    'SV / V references, feedback, analyses and regressions), replies reporting any subset of values new - also while '
    'the consumer is pending, released or executing, and while the reporting unit itself is queued again - followed '
    'by a drain to quiescence. Around every successful Hand._res the todo set of EVERY node is snapshotted; the '
    'additions must equal exactly E = {(D, t)}: D ranges over the algorithms whose declared inputs (reference model) '
    'intersect the values reported new plus the mapped feedback consumers, t is the reporting target (the '
    'all-targets marker for an analysis D; every known target when the report is an all-targets one): completeness '
    '(nothing of E missing, also when D is executing t) and minimality (nothing outside E added). Between replies, '
    'additions must equal what the event asked for (run request, run-id carrying event, version change at load, '
    'timer). Every release must be covered by an earlier addition (nothing runs without a cause), and at quiescence '
    'every unit of every E has been released after the report that put it there, unless a later failure of one of '
    'its ancestors withdrew it (C05) or a reload intervened. (end to end) in histories where every execution succeeds, '
    'fake workers run the REAL worker path (Task/Analysis/Regress.do, Dataset.load/update through the in-memory '
    'socket to the real shelve store); roots get never-seen content for a chosen subset of values on each re-run; at '
    'quiescence the content returned by a real Dataset.load for every (target, algorithm, value) equals a from-scratch '
    'evaluation of the engine in dependency order on the final root contents. non-trivial = reply with some but not '
    'all values new while some consumer depends only on unchanged values; distinct = hash(engine shape, events)'
)
ASSUMPTIONS = [
    'target names contain no "." (value names are run.target.task.alg.sv.value)',
    'a consumer unit withdrawn by a recorded failure of one of its ancestors after the report is exempt from "runs again" (that is what C05 requires)',
    'end-to-end histories use successful executions only and at most ~40 unit executions (each value costs two digest subprocesses)',
]
FLOORS = {
    'quick': {'evaluations': 300, 'reports_checked': 3000, 'nodes_compared': 20000, 'expected_units_followed_up': 1500, 'nontrivial': 150,
              'e2e_histories': 5, 'e2e_values_compared': 40},
    'thorough': {'evaluations': 5000, 'reports_checked': 60000, 'nontrivial': 3000},
}
BUDGET = {'quick': 25.0, 'thorough': 600.0}
MANIFEST = dict(
    category='exploration',
    technique='runtime frame monitor around every successful Hand._res (todo additions == reference consumers of the values reported new), cause ledger for every release, follow-up check at quiescence; end-to-end differential of the real store against a from-scratch evaluation',
    text=(
        'Completeness and minimality are statements about the closure over graphs, change subsets and arrival orders: '
        'thousands of generated histories are run on the real scheduler/farm and every propagation step is compared '
        'with a reference model computed from the engine spec alone.'
    ),
    design='DESIGN.md §2 C02',
    note=('Trusted base: CPython, Twisted, the harness (vf/) and its reference models. Verdict is "held on the executions '
          'observed". The end-to-end part drives the real worker and shelve store through the in-memory socket.'),
)


class C02Monitor(simfarm.Monitor):
    # pylint: disable=too-many-instance-attributes
    def __init__(self):
        self.reports = 0
        self.compared = 0
        self.nontrivial = 0
        self.expected = []  # (event index, reporter, D, t)
        self.s_event = None
        self.s_res = None
        self.credit = {}
        self.withdrawn = []  # (event index, tag, target) removed by a failure purge
        self.followed = 0
        self.reload_at = []

    # -- helpers -----------------------------------------------------------------
    @staticmethod
    def todo(sim):
        return {t: set(n.get('todo')) for t, n in sim.nodes().items()}

    def add_credit(self, before, after):
        for tag, a in after.items():
            for t in a - before.get(tag, set()):
                self.credit[(tag, t)] = self.credit.get((tag, t), 0) + 1

    def start(self, sim):
        # whatever the load scheduled (new versions) is a cause
        for tag, a in self.todo(sim).items():
            for t in a:
                self.credit[(tag, t)] = 1

    # -- around replies -----------------------------------------------------------
    def before_res(self, sim, msg):
        self.s_res = self.todo(sim)
        self.targets0 = set(sim.targets())

    def after_res(self, sim, msg):
        # pylint: disable=too-many-locals,too-many-branches
        before, after = self.s_res, self.todo(sim)
        self.s_res = None
        self.in_res_added = {}
        for tag in after:
            add = after[tag] - before.get(tag, set())
            if add:
                self.in_res_added[tag] = add
        self.add_credit(before, after)
        rel = getattr(sim, 'cur_rel', None)
        x = msg.jobid
        t = msg.incarnation if msg.incarnation else '__all__'
        if msg.success is not True:
            # failures never add work (C05); record what they withdrew
            for tag in before:
                for tg in before[tag] - after.get(tag, set()):
                    self.withdrawn.append((len(sim.events), tag, tg))
            if self.in_res_added:
                sim.violation('no-trigger-without-new-input', f'{x}[{t}] non-success reply added {self.in_res_added}')
            return
        if rel is None or rel.key() != (x, t) or rel.state != 'applied':
            return  # not applied: C03
        self.reports += 1
        ref = sim.ref
        new = {'.'.join(vn.split('.')[2:]) for vn, isnew in (msg.values or []) if isnew}
        tset = {vn.split('.')[1] for vn, isnew in (msg.values or []) if isnew}
        cons = {d for d in ref.consumers_of(new) if d != x}
        fbs = set()
        for fvn in new & set(sim.sch.ae.feedbacks):
            fbs.add('.'.join(sim.sch.ae.feedbacks[fvn].split('.')[:2]))
        exp = {}
        for d in cons | fbs:
            if d not in after:
                continue
            if ref.kind[d] == 'analysis':
                exp[d] = {'__all__'}
            elif '__all__' in tset:
                exp[d] = set(self.targets0)
            else:
                exp[d] = set(tset)
        all_vals = set(ref.values.get(x, []))
        if new & all_vals and (all_vals - new) and any(not (ref.in_values[d] & new) for d in ref.children[x]):
            self.nontrivial += 1
        for tag in sorted(after):
            self.compared += 1
            want = before.get(tag, set()) | exp.get(tag, set())
            if after[tag] != want:
                miss, extra = sorted(want - after[tag]), sorted(after[tag] - want)
                if miss:
                    sim.violation('reprocessing-complete', f'{x}[{t}] reported {sorted(new)[:4]} new: {tag} declares '
                                  f'{sorted(ref.in_values[tag] & new)[:3] or "a feedback on it"} as input but {miss} was not queued for it '
                                  f'(pending before={sorted(before.get(tag, ()))}, executing={sorted(sim.nodes()[tag].get("doing"))})')
                else:
                    sim.violation('reprocessing-minimal', f'{x}[{t}] reported {sorted(new)[:4]} new: {tag} got {extra} queued although none of its '
                                  f'declared inputs {sorted(ref.in_values[tag])[:4]} was reported new')
                return
        for d, ts in exp.items():
            for tg in ts:
                self.expected.append((len(sim.events), f'{x}[{t}]', d, tg))

    # -- between replies ---------------------------------------------------------------
    def before_event(self, sim, ev):
        self.s_event = self.todo(sim)
        self.in_res_added = {}
        self.t_event = set(sim.targets())

    def after_event(self, sim, ev):
        before, after = self.s_event, self.todo(sim)
        op = ev['op']
        if op == 'reload':
            self.reload_at.append(len(sim.events))
            self.credit = {}
            for tag, a in after.items():
                for t in a:
                    self.credit[(tag, t)] = 1
            return
        if op == 'reply':
            return  # handled around _res
        self.add_credit(before, after)
        added = {tag: after[tag] - before.get(tag, set()) for tag in after if after[tag] - before.get(tag, set())}
        if op in ('run', 'organize'):
            want = {}
            tg = set(ev['targets'])
            for n in ev['names']:
                if n not in after:
                    continue
                if sim.ref.kind[n] == 'analysis':
                    w = {'__all__'}
                elif '__all__' in tg:
                    w = set(self.t_event)
                else:
                    w = set(tg)
                want[n] = w - before.get(n, set())
            want = {k: v for k, v in want.items() if v}
            if added != want:
                sim.violation('only-what-was-requested', f'{op} {ev["names"]} x {ev["targets"]} added {added}, expected {want}')
        elif op == 'advance':
            pass  # timers (C20)
        elif added:
            sim.violation('no-trigger-without-new-input', f'event {op} added pending work {added}')

    def on_release(self, sim, batch):
        for r in batch:
            r.ev_released = len(sim.events)
            k = (r.tag, r.target)
            if self.credit.get(k, 0) <= 0:
                sim.violation('runs-only-with-a-cause', f'{r.tag}[{r.target}] was released although nothing queued it since its last release')
            else:
                self.credit[k] -= 1

    def finish(self, sim, res, shape):
        from ..result import h64  # pylint: disable=import-outside-toplevel

        res.count('reports_checked', self.reports)
        res.count('nodes_compared', self.compared)
        res.count('nontrivial_reports', self.nontrivial)
        if self.nontrivial:
            res.see('nontrivial', h64([shape, sim.events]))
        # follow-up: every expected unit was released after the report (drain reached quiescence)
        if getattr(sim, 'drain_spec', None) and getattr(sim, 'drain_rounds', None) is not None and not sim.bad:
            anc = sim.ref.anc
            for when, who, d, tg in self.expected:
                if any(r > when for r in self.reload_at):
                    continue
                ok = any(r.key() == (d, tg) and getattr(r, 'ev_released', 0) >= when for r in sim.releases)
                if not ok:
                    # withdrawn afterwards by the failure of an ancestor (or of itself)?
                    if any(w >= when and wt == tg and wtag == d for w, wtag, wt in self.withdrawn):
                        res.count('follow_ups_exempt_withdrawn')
                        continue
                    sim.violation('reprocessing-complete', f'{who} reported new input for {d}[{tg}] at event {when}; the pipeline went quiescent without running it '
                                  f'(ancestors: {sorted(anc.get(d, ()))[:4]})')
                    break
                self.followed += 1
        res.count('expected_units_followed_up', self.followed)


def make_monitors():
    return [C02Monitor()]


def classify(clause, detail, sim):
    return 'C02/' + clause


def drain_spec(rng, case):
    from .. import aegen  # pylint: disable=import-outside-toplevel

    ref = aegen.Reference(case['spec'])
    depth = max(ref.depth(t) for t in ref.algs)
    units = len(ref.algs) * (len(case['targets']) + 4)
    return {'max_rounds': 2 * units * (depth + 1) + 8, 'outcome': 'success', 'new': [False]}


def profile(rng):
    p = {k: (dict(v) if isinstance(v, dict) else v) for k, v in simfarm.DEFAULT_PROFILE.items()}
    tot = rng.choice([0.0, 0.1, 0.25])
    p['p_fail'] = tot * 0.5
    p['p_invalid'] = tot * 0.5
    p['weights']['rerun_inflight'] = rng.choice([0.6, 1.5])
    p['weights']['organize'] = 0.5
    return p


OPTS = {'profile': profile, 'lengths': [20, 40, 80, 120], 'ntargets': [1, 2, 2, 3], 'drain': drain_spec, 'p_feedback': 0.35}


def plan(tier, seed):
    specs = [{'seed': seed * 1000 + 200 + i, 'budget': BUDGET[tier], 'mode': 'sched'} for i in range(11)]
    # (the end-to-end shards really run the algorithms: a few histories per budget.  Their share of the floors is
    # expressed in their own counters, not in the scheduler shards' ones)
    specs += [{'seed': seed * 1000 + 250 + i, 'budget': BUDGET[tier], 'mode': 'e2e',
               'min': {'e2e_histories': 2, 'e2e_values_compared': 20}} for i in range(5)]
    return specs


# ---------------------------------------------------------------------------
# (b) end to end
def gen_e2e_case(rng):
    from .. import aegen  # pylint: disable=import-outside-toplevel

    spec = aegen.generate(
        rng, n_algs=rng.choice([2, 3, 4, 5, 6]), p_event=0.0, p_feedback=0.0, p_analysis=0.25, p_regress=0.0,
        max_svs=2, max_vals=2, shape=rng.choice(['random', 'chain', 'diamond', 'fan', 'deep']),
    )
    for tk in spec['tasks']:
        for a in tk['algs']:
            a['where'] = 'cluster'
    nt = rng.choice([1, 2, 2])
    return {'spec': spec, 'targets': [f'T{i}' for i in range(nt)], 'prerecord': [], 'script': None, 'e2e': True}


def e2e_drain(sim, max_rounds=200):
    '''dispatch; every worker really executes its unit; repeat until nothing is left'''
    for _ in range(max_rounds):
        if not sim.inflight() and not any(n.get('todo') for n in sim.nodes().values()):
            return True
        idle = [w for w in sim.workers.values() if not w.lost and w.task is None]
        need = len(sim.farm._cluster) + 3  # pylint: disable=protected-access
        for _i in range(max(0, need - len(idle))):
            sim.e2e_wid = getattr(sim, 'e2e_wid', 800000) + 1  # worker ids are unique within a history
            sim.apply({'op': 'connect', 'w': sim.e2e_wid, 'host': 'e2e', 'rev': 'good'})
        sim.apply({'op': 'dispatch'})
        for w in sorted([w for w in sim.workers.values() if w.task is not None], key=lambda k: k.wid):
            sim.apply({'op': 'reply', 'w': w.wid, 'outcome': 'success', 'real': True})
        if sim.bad:
            return False
    return False


def run_e2e_case(case, res, rng=None):
    '''returns (bad, sim)'''
    # pylint: disable=too-many-locals,too-many-branches,too-many-statements
    from .. import aegen, e2e, netsim  # pylint: disable=import-outside-toplevel

    w = simprops.get_world()
    if not hasattr(w, 'net'):
        w.net = netsim.Net(w.reactor).install()
    monitors = make_monitors()
    sim = simfarm.Sim(w, case['spec'], case['targets'], case['prerecord'], monitors)
    sim.exec = e2e.Exec(sim)
    bad = []
    ref = aegen.Reference(case['spec'])
    roots = [t for t in ref.order if not ref.parents[t]]
    try:
        if case['script'] is None:
            # phase 1: first boot, everything runs
            ok = e2e_drain(sim)
            script = []
            wid = 700000
            for _round in range(rng.choice([1, 2, 3])):
                if not ok or sim.bad:
                    break
                # a root is re-run with never-seen content for a chosen subset of its values
                for _k in range(rng.choice([1, 1, 2])):
                    r = rng.choice(roots)
                    alg = ref.algs[r]
                    allv = [(sv['name'], v['name']) for sv in alg['svs'] for v in sv['vals']]
                    vals = rng.sample(allv, rng.randint(0, len(allv)))
                    tgs = ['__all__'] if ref.kind[r] == 'analysis' else rng.sample(case['targets'], rng.randint(1, len(case['targets'])))
                    for tg in tgs:
                        ev = {'op': 'salt', 'tag': r, 'target': tg, 'vals': [list(v) for v in vals]}
                        sim.apply(ev)
                        script.append(ev)
                    ev = {'op': 'run', 'names': [r], 'targets': tgs}
                    sim.apply(ev)
                    script.append(ev)
                    # partial progress in random order before the next change arrives
                    for _s in range(rng.randint(0, 6)):
                        busy = sorted([x for x in sim.workers.values() if x.task is not None], key=lambda k: k.wid)
                        k = rng.random()
                        if busy and k < 0.5:
                            ev = {'op': 'reply', 'w': rng.choice(busy).wid, 'outcome': 'success', 'real': True}
                        elif k < 0.8:
                            ev = {'op': 'dispatch'}
                        else:
                            wid += 1
                            ev = {'op': 'connect', 'w': wid, 'host': 'e2e', 'rev': 'good'}
                        sim.apply(ev)
                        script.append(ev)
                        if sim.bad:
                            break
                ok = e2e_drain(sim)
                script.append({'op': 'e2e_drain'})
            case['script'] = script
        else:
            ok = e2e_drain(sim)
            for ev in case['script']:
                if sim.bad or not ok:
                    break
                if ev['op'] == 'e2e_drain':
                    ok = e2e_drain(sim)
                    continue
                if ev['op'] == 'reply' and ev['w'] not in sim.workers:
                    continue
                sim.apply(dict(ev))
        res.count('e2e_histories')
        res.count('e2e_unit_executions', len(sim.exec.log))
        res.count('e2e_checkpointing_executions', sim.exec.checkpoints)
        if sim.bad:
            for clause, detail, mech in sim.bad[:1]:
                bad.append((clause, detail))
        elif not ok:
            bad.append(('quiescence', 'end-to-end history did not reach quiescence'))
        else:
            want = sim.exec.from_scratch(case['targets'])
            got = sim.exec.stored(case['targets'])
            res.count('e2e_values_compared', len(want))
            for key in sorted(want):
                if got.get(key) != want[key]:
                    g = got.get(key)
                    bad.append(
                        ('stored-equals-from-scratch',
                         f'{key[1]} on {key[0]}: the store holds salt={g.get("salt") if isinstance(g, dict) else g} inputs={str(g.get("in") if isinstance(g, dict) else None)[:120]}; '
                         f'a from-scratch run in dependency order yields salt={want[key]["salt"]} inputs={str(want[key]["in"])[:120]} '
                         f'(executions: {len(sim.exec.log)})')
                    )
                    break
            reruns = len(sim.exec.log) - len(want)
            if reruns > 0:
                res.see('nontrivial', simprops.h64([ref.shape_hash(), case['script']]))
        for m in monitors:
            m.finish(sim, res, ref.shape_hash())
    finally:
        sim.exec.close()
        sim.close()
    return bad, sim


def run_e2e(spec, res):
    import random  # pylint: disable=import-outside-toplevel

    rng = random.Random(spec['seed'])
    n = 0
    while keep_going(res, spec, 0.6) or n < 1:
        case = gen_e2e_case(rng)
        bad, sim = run_e2e_case(case, res, rng)
        n += 1
        res.count('evaluations')
        if n <= 1:
            res.sample({'mode': 'end-to-end', 'targets': case['targets'], 'script': case['script'][:12], 'executions': sim.exec.log[:12]})
        for clause, detail in bad[:1]:
            res.violation(clause, detail, {k: case[k] for k in ('spec', 'targets', 'prerecord', 'script', 'e2e')}, mechanism='C02/' + clause)
        if n % 5 == 0:
            simprops.get_world().prune_engines()


def run_shard(spec):
    boot.init()
    if spec.get('mode') == 'e2e':
        from ..result import Result  # pylint: disable=import-outside-toplevel

        res = Result()
        run_e2e(spec, res)
        return res
    opts = dict(OPTS)
    if spec['tier'] == 'thorough':
        opts['sizes'] = [3, 4, 5, 6, 8, 10, 12, 16, 20]
        opts['lengths'] = [40, 80, 150, 300]
    return simprops.shard_loop(spec, ID, make_monitors, classify, opts)


def replay(witness):
    boot.init()
    if witness.get('e2e'):
        from ..result import Result  # pylint: disable=import-outside-toplevel

        res = Result()
        bad, _sim = run_e2e_case(dict(witness), res)
        for clause, detail in bad[:1]:
            res.violation(clause, detail, witness, mechanism='C02/' + clause)
        res.count('evaluations')
        return res
    return simprops.replay_witness(witness, make_monitors, ID, classify)
