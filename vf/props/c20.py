'''C20 - timer events are computable, land on their moment, and keep recurring'''

import copy
import datetime
import random
import types

from .. import aegen, boot, simfarm
from ..result import Result, h64, keep_going

ID = 'C20'
LEVEL = 'exploration'
NONTRIVIAL = 'nontrivial'
UTC = datetime.timezone.utc
RULE = (
    '(delay) schedule._delay under an injected clock for every day-of-week 0-6, day-of-month 1-31, a set of dates '
    'and boot, x times of day {00:00:00, 03:00:00, 12:00:00, 23:59:59}, at instants stepping through 2023-01-01 .. '
    '2028-12-31 (co-prime stride in quick, hourly in thorough, plus +-1 s around every month end / leap day / year '
    'end): no exception; now+delay matches the specification (weekday / day of month / date and time of day); it '
    'is not later than the first matching moment at or after now (one period) and, when in the past, it is today. '
    '(firing) generated engines with timer events run on the real schedule.periodics/defer + farm on the virtual '
    'reactor with the clock following the reactor: every node queued by defer() gets todo = all known targets '
    '(__all__ for analyses) and some event of it is due (moment within 300 s, or already passed today); a boot '
    'event fires once across reloads; over a horizon of >= 3 periods with every firing completed promptly each '
    'period of a weekly / monthly event contains a firing. non-trivial (firing) = simulation in which >= 1 '
    'weekly/monthly occurrence was checked; distinct = hash(events, start instant)'
)
ASSUMPTIONS = [
    'day-of-month restricted to 1..31 and day-of-week to 0..6 as the property quantifier states',
    'clock is injected by replacing the name `datetime` inside dawgie.pl.schedule (the datetime module itself is untouched)',
    'a moment that has already passed today is treated as due immediately by the code (catch-up); that is counted, not judged',
]
FLOORS = {
    'quick': {'delay_evaluations': 300000, 'firing_simulations': 60, 'firings_checked': 60, 'nontrivial': 30},
    'thorough': {'delay_evaluations': 5000000, 'firing_simulations': 1500, 'nontrivial': 700},
}
BUDGET = {'quick': 24.0, 'thorough': 420.0}
MANIFEST = dict(
    category='exploration',
    technique='runtime oracle on schedule._delay over a clock grid (injected clock) + event-log monitor of defer()/queue/timers on the virtual reactor for firing, boot-once and recurrence',
    text=(
        'The delay computation is evaluated on a dense grid of clock instants x every specification the quantifier '
        'names and compared with an independent calendar oracle; firing behaviour is observed on real '
        'periodics/defer/dispatch/complete running on virtual time over several periods and reloads. Unbounded '
        '"keeps recurring" is decided in its bounded form (every period of a >= 3 period horizon has a firing).'
    ),
    design='DESIGN.md §2 C20',
    note='Trusted base: CPython datetime (used by the oracle), Twisted Clock, the harness. Held = on the grid and simulations observed.',
)
TIMES = [(0, 0, 0), (3, 0, 0), (12, 0, 0), (23, 59, 59)]
DATES = [(2024, 2, 29), (2025, 12, 31), (2026, 1, 1), (2027, 6, 15), (2023, 1, 1), (2028, 12, 31)]
START = datetime.datetime(2023, 1, 1, tzinfo=UTC)
END = datetime.datetime(2029, 1, 1, tzinfo=UTC)


def plan(tier, seed):
    specs = []
    for i in range(8):
        specs.append({'seed': seed * 1000 + i, 'mode': 'delay', 'part': i, 'parts': 8, 'budget': BUDGET[tier]})
    for i in range(8):
        specs.append({'seed': seed * 1000 + 100 + i, 'mode': 'firing', 'budget': BUDGET[tier]})
    return specs


# ---------------------------------------------------------------------------
# injected clock
class Clock:
    now = START


def make_shim():
    class VDT(datetime.datetime):
        @classmethod
        def now(cls, tz=None):
            n = Clock.now
            return cls(n.year, n.month, n.day, n.hour, n.minute, n.second, n.microsecond, tzinfo=tz)

    return types.SimpleNamespace(
        datetime=VDT, UTC=UTC, timedelta=datetime.timedelta, timezone=datetime.timezone,
        date=datetime.date, time=datetime.time,
    )


# ---------------------------------------------------------------------------
# calendar oracle (independent of schedule._delay)
def matches(ev, m):
    t = datetime.time(*ev['time']) if 'time' in ev else None
    if 'dow' in ev:
        return m.weekday() == ev['dow'] and m.time().replace(microsecond=0) == t
    if 'dom' in ev:
        return m.day == ev['dom'] and m.time().replace(microsecond=0) == t
    if 'day' in ev:
        return (m.year, m.month, m.day) == tuple(ev['day']) and m.time().replace(microsecond=0) == t
    return True


def first_match_at_or_after(ev, now):
    '''earliest moment >= now that matches a weekly / monthly specification'''
    t = datetime.time(*ev['time'])
    d = now.date()
    for _ in range(70):
        ok = (d.weekday() == ev['dow']) if 'dow' in ev else (d.day == ev['dom'])
        if ok:
            m = datetime.datetime.combine(d, t, tzinfo=UTC)
            if m >= now.replace(microsecond=0):
                return m
        d += datetime.timedelta(days=1)
    raise AssertionError('oracle: no matching day within 70 days')


def check_delay(sch, dawgie, ev, now, res):
    '''one evaluation; returns (clause, detail, mechanism) or None'''
    Clock.now = now
    kw = {k: ev[k] for k in ('dow', 'dom') if k in ev}
    if 'day' in ev:
        kw['day'] = datetime.date(*ev['day'])
    when = dawgie.schedule(None, None, time=datetime.time(*ev['time']), **kw)
    res.count('delay_evaluations')
    try:
        delay = sch._delay(when)  # pylint: disable=protected-access
    except Exception as e:  # pylint: disable=broad-exception-caught
        mech = None
        if 'dom' in ev and isinstance(e, ValueError):
            mech = 'C20/dom-day-absent-in-target-month'
        return ('delay-computable', f'_delay({ev}) at {now.isoformat()} raised {type(e).__name__}: {e}', mech)
    if not isinstance(delay, datetime.timedelta):
        return ('delay-computable', f'_delay({ev}) at {now.isoformat()} returned {delay!r}', None)
    m = now + delay
    if not matches(ev, m):
        return ('moment-matches-spec', f'_delay({ev}) at {now.isoformat()} designates {m.isoformat()}', None)
    if 'day' in ev:
        return None
    bound = first_match_at_or_after(ev, now)
    if m > bound:
        mech = 'C20/dom-always-next-month' if 'dom' in ev else None
        return (
            'within-one-period',
            f'_delay({ev}) at {now.isoformat()} designates {m.isoformat()}, but the specification already matches '
            f'at {bound.isoformat()} ({(m - bound).days} days earlier)',
            mech,
        )
    if m < now.replace(microsecond=0):
        res.count('obs_past_moment_today')
        if m.date() != now.date():
            return ('moment-not-stale', f'_delay({ev}) at {now.isoformat()} designates the past moment {m.isoformat()}', None)
    return None


def all_specs():
    out = []
    for t in TIMES:
        out += [{'dow': d, 'time': list(t)} for d in range(7)]
        out += [{'dom': d, 'time': list(t)} for d in range(1, 32)]
        out += [{'day': list(d), 'time': list(t)} for d in DATES]
    return out


def instants(tier, rng, part, parts):
    '''grid instants of this shard'''
    stride = datetime.timedelta(hours=1) if tier == 'thorough' else datetime.timedelta(hours=7, minutes=13, seconds=7)
    span = (END - START) / parts
    lo, hi = START + span * part, START + span * (part + 1)
    t = lo + datetime.timedelta(seconds=rng.randrange(0, 3600))
    while t < hi:
        yield t
        t += stride
    # boundaries: +-1 s around the first of every month (covers month/year ends and leap day)
    y, mth = lo.year, lo.month
    while True:
        b = datetime.datetime(y, mth, 1, tzinfo=UTC)
        if b >= hi:
            break
        if b >= lo:
            for ds in (-1, 0, 1, -86400, -86401, 86399):
                yield b + datetime.timedelta(seconds=ds)
        mth += 1
        if mth == 13:
            y, mth = y + 1, 1


def run_delay(spec, res):
    import dawgie  # pylint: disable=import-outside-toplevel
    import dawgie.pl.schedule as sch  # pylint: disable=import-outside-toplevel

    rng = random.Random(spec['seed'])
    sch.datetime = make_shim()
    specs = all_specs()
    seen_mech = {}
    n_inst = 0
    for now in instants(spec['tier'], rng, spec['part'], spec['parts']):
        n_inst += 1
        for ev in specs:
            bad = check_delay(sch, dawgie, ev, now, res)
            if bad:
                clause, detail, mech = bad
                key = mech or clause
                seen_mech[key] = seen_mech.get(key, 0) + 1
                if seen_mech[key] <= 3:
                    res.violation(clause, detail, {'mode': 'delay', 'event': ev, 'now': now.isoformat()}, mechanism=mech or 'C20/' + clause)
    # boot: delay 0 the first time, not knowable afterwards
    del sch.booted[:]
    def task():  # stands in for a task factory of package <ae>.tkb
        return None

    task.__module__ = (getattr(dawgie.context, 'ae_base_package', None) or 'ae') + '.tkb'

    class Impl:
        def name(self):
            return 'bootalg'

    if not getattr(dawgie.context, 'ae_base_package', None):
        dawgie.context.ae_base_package = 'ae'
    when = dawgie.schedule(task, Impl(), boot=True)
    Clock.now = START
    d0 = sch._delay(when)  # pylint: disable=protected-access
    res.count('delay_evaluations')
    if d0 != datetime.timedelta(0):
        res.violation('boot-delay', f'first _delay(boot) = {d0}', {'mode': 'boot'}, mechanism='C20/boot-delay')
    try:
        # the same boot event as a reload would re-create it (new objects, same names)
        sch._delay(dawgie.schedule(task, Impl(), boot=True))  # pylint: disable=protected-access
        res.violation('boot-once', 'second _delay(boot) did not refuse', {'mode': 'boot'}, mechanism='C20/boot-once')
    except sch._DelayNotKnowableError:  # pylint: disable=protected-access
        pass
    del sch.booted[:]
    res.count('evaluations', n_inst)
    res.count('grid_instants', n_inst)
    res.see('nontrivial', f'delay-{spec["part"]}')
    res.extra['delay_specs'] = len(specs)
    res.sample({'mode': 'delay', 'specs': len(specs), 'instants': n_inst, 'example': [specs[8], str(START)]})
    for k, v in seen_mech.items():
        res.count('delay_bad_' + k.replace('/', '_'), v)


# ---------------------------------------------------------------------------
# firing simulations
_WORLD = []


def get_world():
    from .. import world  # pylint: disable=import-outside-toplevel
    import dawgie.pl.schedule as sch  # pylint: disable=import-outside-toplevel

    if not _WORLD:
        w = world.World()
        w.install_clock(sch)
        _WORLD.append(w)
    return _WORLD[0]


def gen_event(rng):
    t = list(rng.choice(TIMES + [(6, 30, 0), (18, 0, 1)]))
    k = rng.random()
    if k < 0.2:
        return {'boot': True}
    if k < 0.6:
        return {'dow': rng.randint(0, 6), 'time': t}
    if k < 0.9:
        return {'dom': rng.randint(1, 31), 'time': t}
    return {'day': [2025, rng.randint(1, 12), rng.randint(1, 28)], 'time': t}


def gen_firing_case(rng):
    n = rng.choice([1, 2, 3, 4])
    spec = aegen.generate(rng, n_algs=n, p_event=0.0, p_feedback=0.0, p_analysis=0.3, p_regress=0.1, max_svs=1, max_vals=2)
    algs = [a for t in spec['tasks'] for a in t['algs']]
    for alg in rng.sample(algs, rng.randint(1, min(2, len(algs)))):
        for _ in range(rng.choice([1, 1, 1, 2])):
            alg['events'].append(gen_event(rng))
    nt = rng.choice([1, 2, 3])
    kind = 'dom' if any('dom' in e for a in algs for e in a['events']) else 'dow'
    return {
        'spec': spec,
        'targets': [f'T{i}' for i in range(nt)],
        'start': None,  # absolute instant, filled in by the shard loop (the shared clock only moves forward)
        'start_skip': rng.randrange(0, 500 * 86400) + rng.choice([0, 0, 0.1, 0.25, 0.4, 0.499, 0.5, 0.75, 0.9]),  # timers are armed with round(): wake-ups land before or after the moment
        'horizon_days': 100 if kind == 'dom' else 23,
        'reloads': rng.choice([0, 0, 1, 2]),
        'new_target_at': rng.choice([None, None, 0.3, 0.6]),
    }


class FiringMonitor(simfarm.Monitor):
    def __init__(self):
        self.firings = []  # (tag, time, todo)
        self.bad = []
        self.catchup = 0

    def start(self, sim):
        self.sim = sim


def run_firing_case(w, case, res):
    '''returns (bad list, info)'''
    # pylint: disable=too-many-locals,too-many-branches,too-many-statements
    import dawgie.pl.schedule as sch  # pylint: disable=import-outside-toplevel

    rx = w.reactor
    bad = []
    firings = []  # (tag, when, number of the load it belongs to)
    load_no = [0]
    info = {'occurrences_checked': 0, 'catchup': 0, 'boot_firings': 0}
    # position the clock (time only moves forward on the shared reactor)
    # the history starts at this absolute instant (sub-second phase included: timers are armed with round())
    start = datetime.datetime.fromisoformat(case['start'])
    from ..world import EPOCH  # pylint: disable=import-outside-toplevel

    w.start_at = (start - EPOCH).total_seconds()
    kind_of = aegen.Reference(case['spec']).kind
    import dawgie.db  # pylint: disable=import-outside-toplevel
    orig_defer = sch.defer
    events_of = {}
    spec = case['spec']

    def reindex(spec):
        events_of.clear()
        for tk in spec['tasks']:
            for a in tk['algs']:
                if a['events']:
                    events_of[f'{tk["name"]}.{a["name"]}'] = a['events']

    def defer():
        before = [id(j) for j in sch.que]
        r = orig_defer()
        now = w.now()
        new = [j for j in sch.que if id(j) not in before]
        seen = set()
        for j in new:
            if id(j) in seen:
                bad.append(('queued-once', f'{j.tag} appended to the queue twice by one defer() pass at {now}', 'C20/double-queue-entry'))
                continue
            seen.add(id(j))
            firings.append((j.tag, now, load_no[0]))
            res.count('firings_checked')
            want = {'__all__'} if kind_of[j.tag] == 'analysis' else set(dawgie.db.targets())
            got = set(j.get('todo'))
            if got != want:
                bad.append(('fired-for-all-targets', f'{j.tag} queued by defer() at {now} with todo={sorted(got)}, known targets={sorted(want)}', None))
            # some event of the node must be due
            due = False
            for ev in events_of.get(j.tag, []):
                if ev.get('boot'):
                    due = True
                    info['boot_firings'] += 1
                    continue
                if 'day' in ev:
                    m = datetime.datetime(*ev['day'], *ev['time'], tzinfo=UTC)
                    if (m - now).total_seconds() <= 300:
                        due = True
                    continue
                m = first_match_at_or_after(ev, now)
                if (m - now).total_seconds() <= 301:
                    due = True
                elif matches(ev, datetime.datetime.combine(now.date(), datetime.time(*ev['time']), tzinfo=UTC)):
                    due = True  # passed earlier today: catch-up firing (counted, not judged)
                    info['catchup'] += 1
            if not due:
                bad.append(('fired-only-when-due', f'{j.tag} queued by defer() at {now} but none of its events {events_of.get(j.tag)} is due', None))
        return r

    sch.defer = defer
    reindex(spec)
    sim = None
    try:
        sim = simfarm.Sim(w, spec, case['targets'], list(aegen.Reference(spec).order), [])
        t_start = w.now()
        t_end = t_start + datetime.timedelta(days=case['horizon_days'])
        reload_at = [t_start + (t_end - t_start) * (i + 1) / (case['reloads'] + 1) for i in range(case['reloads'])]
        newt_at = t_start + (t_end - t_start) * case['new_target_at'] if case['new_target_at'] else None
        gen = 0
        guard = 0
        loads = [t_start]
        while w.now() < t_end and guard < 4000 and not bad:
            guard += 1
            # complete whatever is queued, promptly
            if sch.que:
                r = simfarm.drain(sim, 30, 'success', (False,))
                if r is None:
                    bad.append(('firing-completes', f'work queued by a timer did not drain: que={[j.tag for j in sch.que]}', None))
                    break
            calls = [c.getTime() for c in rx.getDelayedCalls() if c.active()]
            now_s = rx.seconds()
            nxt = min(calls) if calls else None
            lim = now_s + 86400.0
            step = min(x for x in (nxt, lim) if x is not None) - now_s
            rx.advance(max(step, 0.0) + (0.0 if step > 0 else 1.0))
            if newt_at and w.now() >= newt_at:
                sim.apply({'op': 'add_target', 'name': 'NEW'})
                newt_at = None
            if reload_at and w.now() >= reload_at[0]:
                reload_at.pop(0)
                gen += 1
                new = copy.deepcopy(spec)
                new['pkg'] = f'{spec["pkg"]}_r{gen}'
                load_no[0] += 1
                sim.apply({'op': 'reload', 'rev': f'rev{gen}', 'spec': new})
                loads.append(w.now())
                res.count('reloads')
        t_stop = w.now()
        # boot once per process
        for tag, evs in events_of.items():
            nboot = sum(1 for e in evs if e.get('boot'))
            if nboot and all(e.get('boot') for e in evs):
                n = sum(1 for f in firings if f[0] == tag)
                res.count('boot_nodes_checked')
                if n != 1:
                    bad.append(('boot-once-per-process', f'{tag} (boot event only) fired {n}x over {len(loads) - 1} reloads', None))
        # recurrence: every occurrence strictly inside the horizon has a firing
        for tag, evs in events_of.items():
            for ev in evs:
                if 'dow' not in ev and 'dom' not in ev:
                    continue
                occ = []
                m = first_match_at_or_after(ev, t_start + datetime.timedelta(seconds=1))
                while m < t_stop - datetime.timedelta(seconds=2):
                    occ.append(m)
                    m = first_match_at_or_after(ev, m + datetime.timedelta(seconds=1))
                hit = []
                for m in occ:
                    ok = any(f[0] == tag and -302 <= (f[1] - m).total_seconds() <= 2 for f in firings)
                    hit.append(ok)
                info['occurrences_checked'] += len(occ)
                res.count('occurrences_checked', len(occ))
                if occ and not all(hit):
                    # (until fix 5e of /repo - see known_findings.json, C20/no-refire-after-node-ran - a node that had
                    # run once was never considered again; every missed occurrence is reported now)
                    bad.append(
                        ('fires-each-period',
                         f'{tag} event {ev}: occurrences {[str(o) for o in occ[:5]]} in the horizon, fired for {hit[:5]} '
                         f'(firings of the node: {[str(f[1]) for f in firings if f[0] == tag][:5]})', None)
                    )
                # and no occurrence is queued twice (the node is drained promptly, so two firings for one moment
                # would be two runs)
                for m in occ:
                    # (a reload rebuilds the schedule and forgets what fired: firings are counted per load)
                    per_load = {}
                    for f in firings:
                        if f[0] == tag and -302 <= (f[1] - m).total_seconds() <= 2:
                            per_load[f[2]] = per_load.get(f[2], 0) + 1
                    n = max(per_load.values()) if per_load else 0
                    others = [e for e in evs if e is not ev and ('dow' in e or 'dom' in e or 'day' in e)]
                    if n > 1 and not others:
                        bad.append(('fires-once-per-occurrence', f'{tag} event {ev}: occurrence {m} was queued {n}x (firings {[str(f[1]) for f in firings if f[0] == tag][:6]})', None))
                        break
    finally:
        w.start_at = 0.0
        sch.defer = orig_defer
        if sim is not None:
            sim.close()
    info['firings'] = len(firings)
    info['started'] = str(t_start) if sim is not None else None
    return bad, info


def run_firing(spec, res):
    rng = random.Random(spec['seed'])
    w = get_world()
    n = 0
    while keep_going(res, spec):
        case = gen_firing_case(rng)
        from ..world import EPOCH  # pylint: disable=import-outside-toplevel

        start = EPOCH + datetime.timedelta(seconds=case['start_skip'])
        case['start'] = start.isoformat()
        for t in case['spec']['tasks']:
            for a in t['algs']:
                for e in a['events']:
                    if 'day' in e:  # a date around the simulated span
                        d = start.date() + datetime.timedelta(days=rng.randint(-3, 40))
                        e['day'] = [d.year, d.month, d.day]
        bad, info = run_firing_case(w, case, res)
        n += 1
        res.count('evaluations')
        res.count('firing_simulations')
        res.count('obs_catchup_firings', info['catchup'])
        if info['occurrences_checked']:
            res.see('nontrivial', h64([case['spec']['tasks'], case['start']]))
        if n <= 2:
            res.sample({'mode': 'firing', 'events': {f'{t["name"]}.{a["name"]}': a['events'] for t in case['spec']['tasks'] for a in t['algs'] if a['events']},
                        'horizon_days': case['horizon_days'], 'reloads': case['reloads'], **info})
        seen = set()
        for clause, detail, mech in bad:
            if (clause, mech) in seen:
                continue
            seen.add((clause, mech))
            res.violation(clause, detail, {'mode': 'firing', 'case': case}, mechanism=mech or 'C20/' + clause)
        if n % 20 == 0:
            w.prune_engines()


def run_shard(spec):
    boot.init()
    res = Result(max_violations=60)
    if spec['mode'] == 'delay':
        run_delay(spec, res)
    else:
        run_firing(spec, res)
    return res


def replay(witness):
    boot.init()
    res = Result()
    if witness['mode'] == 'delay':
        import dawgie  # pylint: disable=import-outside-toplevel
        import dawgie.pl.schedule as sch  # pylint: disable=import-outside-toplevel

        sch.datetime = make_shim()
        now = datetime.datetime.fromisoformat(witness['now'])
        bad = check_delay(sch, dawgie, witness['event'], now, res)
        if bad:
            res.violation(bad[0], bad[1], witness, mechanism=bad[2] or 'C20/' + bad[0])
    elif witness['mode'] == 'boot':
        run_delay({'seed': 0, 'tier': 'quick', 'part': 0, 'parts': 4000}, res)
    else:
        bad, _ = run_firing_case(get_world(), witness['case'], res)
        for clause, detail, mech in bad:
            res.violation(clause, detail, witness, mechanism=mech or 'C20/' + clause)
    res.count('evaluations')
    return res
