'''C11 - work goes only to eligible workers, only while the pipeline is active'''

from .. import boot, simfarm, simprops

ID = 'C11'
LEVEL = 'exploration'
NONTRIVIAL = 'nontrivial'
RULE = (
    'simulated farm histories with 0-8 workers on 1-3 hosts registering with the current or a stale revision, '
    'disconnecting while idle, polling status while busy, dispatch ticks, run requests with and without a carried '
    'run id, replies, life-cycle flips through the real FSM triggers (running <-> gitting), idle archiving inside '
    'dispatch and full reloads to a new revision (real update/reload/archive/load/navel-gaze path). Every task '
    'message decoded from a worker transport (also transports of workers that already disconnected) is checked: '
    'the worker registered with revision == context.git_rev as of the send, its connection is not lost, it holds '
    'no unanswered task, and the pipeline was active; (jobid, target, factory) equal the released unit '
    '(target None for analyses); run id = 0 for regressions, = the carried id when the triggering organize '
    'carried one, otherwise = db.next() at the instant of dispatch and strictly greater than every stored run id. '
    'Whenever farm.notify_all / Hand.notify / a status poll runs while the pipeline is not active every addressed '
    'worker gets the abort response, its connection is closed and it leaves the idle list; a registration or status '
    'poll with a stale revision is refused. non-trivial = history with a task sent after a stale registration, a '
    'disconnect of an idle worker, or a life-cycle change; distinct = hash(engine shape, events)'
)
ASSUMPTIONS = [
    'workers follow the wire protocol of worker.cluster.execute (register, wait, task, status poll and response on new connections)',
    'conservation released = placed + still queued is judged by C03 on the same simulator',
]
FLOORS = {
    'quick': {'evaluations': 300, 'task_messages_checked': 4000, 'inactive_notifications_checked': 300, 'stale_registrations_refused': 300, 'nontrivial': 150},
    'thorough': {'evaluations': 5000, 'task_messages_checked': 80000, 'nontrivial': 2500},
}
BUDGET = {'quick': 25.0, 'thorough': 600.0}
MANIFEST = dict(
    category='exploration',
    technique='runtime monitor on worker transports: every task message is checked against the registration / connection / activity ledger and the released unit; wrappers on farm.notify_all and farm.rerunid observe the activity gate and run-id allocation at the instant they run',
    text=(
        'Eligibility is a statement about every interleaving of registrations, disconnects, polls, dispatch ticks and '
        'life-cycle states; the harness produces such interleavings exactly (reactor callbacks) and inspects the bytes '
        'that reach each fake worker.'
    ),
    design='DESIGN.md §2 C11',
    note=('Trusted base: CPython, Twisted, the harness (vf/) and its reference models. Verdict is "held on the executions '
          'observed". Real FSM; background steps run to completion inside the event that started them.'),
)


class C11Monitor(simfarm.Monitor):
    # pylint: disable=too-many-instance-attributes
    def __init__(self):
        self.msgs = 0
        self.inactive_notes = 0
        self.stale_refused = 0
        self.flags = set()
        self.rerun = {}  # tag -> (runid, next_before, max_stored) of the current dispatch
        self.lost_seen = {}  # wid -> bytes already inspected on the transport of a lost worker
        self.poll_checks = 0

    def start(self, sim):
        farm = sim.farm
        mon = self
        orig_notify_all = farm.notify_all

        def notify_all(*a, **k):
            before = [w for w in sim.workers.values() if w.hand in farm._workers]  # pylint: disable=protected-access
            active = sim.world.fsm.is_pipeline_active()
            r = orig_notify_all(*a, **k)
            if not active:
                mon.inactive_notes += 1
                left = [w.wid for w in before if w.hand in farm._workers]  # pylint: disable=protected-access
                if left:
                    sim.violation('inactive-workers-told-to-leave', f'notify_all ran while the pipeline is not active; workers {left} stay in the idle list')
                for w in before:
                    Type = sim.msg.Type
                    data = w.tr.value()
                    msgs, _rest = simfarm.unframe(w.buf + data)
                    told = any(m.type == Type.response and not m.success for m in msgs)
                    if not told or not w.tr.disconnecting:
                        sim.violation(
                            'inactive-workers-told-to-leave',
                            f'notify_all while inactive: worker {w.wid} abort sent={told} connection closed={w.tr.disconnecting}',
                        )
                        break
            return r

        sim.patch(farm, 'notify_all', notify_all)

    def on_register(self, sim, worker):
        farm = sim.farm
        good = worker.sent_rev == sim.world.ctx.git_rev
        listed = worker.hand in farm._workers  # pylint: disable=protected-access
        if not good:
            self.stale_refused += 1
            self.flags.add('stale')
            msgs, _ = simfarm.unframe(worker.tr.value())
            told = any(m.type == sim.msg.Type.response and not m.success for m in msgs)
            if listed or not told or not worker.tr.disconnecting:
                sim.violation('stale-registration-refused', f'worker {worker.wid} registered with {worker.sent_rev} (pipeline runs {sim.world.ctx.git_rev}): '
                              f'in idle list={listed} abort sent={told} closed={worker.tr.disconnecting}')
        elif not listed:
            sim.violation('good-registration-accepted', f'worker {worker.wid} registered with the current revision but is not in the idle list')

    def on_status(self, sim, worker, ok, conn):
        self.poll_checks += 1
        want = worker.sent_rev == sim.world.ctx.git_rev and sim.world.fsm.is_pipeline_active()
        if ok != want:
            sim.violation('status-poll-gate', f'status poll of worker {worker.wid} (rev {worker.sent_rev}, pipeline {sim.world.ctx.git_rev}, '
                          f'active={sim.world.fsm.is_pipeline_active()}) answered proceed={ok}')
        elif not conn.tr.disconnecting:
            sim.violation('status-poll-gate', 'status connection not closed after the answer')

    def before_event(self, sim, ev):
        self.active_before = sim.world.fsm.is_pipeline_active()
        self.rev_before = sim.world.ctx.git_rev
        if ev['op'] in ('lifecycle', 'reload'):
            self.flags.add('lifecycle')
        if ev['op'] == 'disconnect':
            self.flags.add('disconnect')

    def on_handed(self, sim, worker, msg, rel, already):
        self.msgs += 1
        who = f'task {msg.jobid}[{msg.target}] run {msg.runid} -> worker {worker.wid}'
        if worker.sent_rev != self.rev_before and worker.sent_rev != sim.world.ctx.git_rev:
            sim.violation('only-current-revision', f'{who}: worker registered with {worker.sent_rev}, pipeline runs {sim.world.ctx.git_rev}')
        if not self.active_before:
            sim.violation('only-while-active', f'{who}: the pipeline was not active when this event started')
        if already:
            sim.violation('one-task-per-worker', f'{who}: the worker already holds an unanswered task')
        if rel is None:
            return  # C03: task message without release
        ref = sim.ref
        kind = ref.kind.get(rel.tag)
        want_target = None if kind == 'analysis' else rel.target
        tk = rel.tag.split('.')[0]
        want_fac = (f'{sim.spec["pkg"]}.{tk}', {'task': 'task', 'analysis': 'analysis', 'regress': 'regress'}.get(kind))
        if msg.jobid != rel.tag or msg.target != want_target or tuple(msg.factory) != want_fac:
            sim.violation('message-content', f'{who}: factory {msg.factory}; released unit is {rel.tag}[{rel.target}] of kind {kind} (factory {want_fac})')
            return
        info = rel.alloc
        if kind == 'regress':
            if msg.runid != 0:
                sim.violation('run-id', f'{who}: regressions run under id 0')
            return
        if info is None:
            return
        rid, nxt, mx, carried = info
        if msg.runid != rid:
            sim.violation('run-id', f'{who}: dispatch allocated run {rid} for this job')
        elif carried is None:
            self.flags.add('fresh-id')
            if rid != nxt or rid <= mx:
                sim.violation('run-id', f'{who}: no run id was carried, fresh id {rid} but db.next() was {nxt} and run {mx} is stored')
        elif rid != carried:
            sim.violation('run-id', f'{who}: the triggering event carried run {carried}')

    def after_event(self, sim, ev):
        # task messages written to connections that are already lost
        Type = sim.msg.Type
        for w in sim.workers.values():
            if not w.lost:
                continue
            data = w.tr.value()
            if len(data) == self.lost_seen.get(w.wid, -1):
                continue
            self.lost_seen[w.wid] = len(data)
            msgs, _ = simfarm.unframe(w.buf + data)
            fresh = [m for m in msgs if m.type == Type.task and m is not None]
            n_known = getattr(w, 'tasks_before_loss', None)
            if n_known is None:
                w.tasks_before_loss = len(fresh)
            elif len(fresh) > n_known:
                sim.violation('only-connected-workers', f'task {fresh[-1].jobid}[{fresh[-1].target}] was written to worker {w.wid} after its connection was lost')

    def finish(self, sim, res, shape):
        from ..result import h64  # pylint: disable=import-outside-toplevel

        res.count('task_messages_checked', self.msgs)
        res.count('inactive_notifications_checked', self.inactive_notes)
        res.count('stale_registrations_refused', self.stale_refused)
        res.count('status_polls_checked', self.poll_checks)
        if self.msgs and self.flags & {'stale', 'lifecycle', 'disconnect'}:
            res.see('nontrivial', h64([shape, sim.events]))
        for f in self.flags:
            res.count('histories_with_' + f)


def make_monitors():
    return [C11Monitor()]


def classify(clause, detail, sim):
    return 'C11/' + clause


def profile(rng):
    p = {k: (dict(v) if isinstance(v, dict) else v) for k, v in simfarm.DEFAULT_PROFILE.items()}
    p['p_stale'] = rng.choice([0.1, 0.25, 0.4])
    p['hosts'] = ['10.0.0.%d' % i for i in range(1, rng.choice([2, 3, 4]))]
    w = p['weights']
    w['disconnect'] = rng.choice([0.3, 0.8])
    w['status'] = 0.5
    w['lifecycle'] = rng.choice([0.0, 0.3, 0.6])
    w['reload'] = rng.choice([0.0, 0.05, 0.15])
    w['organize'] = 0.6
    w['connect'] = rng.choice([2.0, 3.0])
    return p


OPTS = {'profile': profile, 'lengths': [30, 60, 100, 150], 'sizes': [2, 3, 4, 5, 6, 8]}


def plan(tier, seed):
    return [{'seed': seed * 1000 + 1100 + i, 'budget': BUDGET[tier]} for i in range(16)]


def run_shard(spec):
    boot.init()
    opts = dict(OPTS)
    if spec['tier'] == 'thorough':
        opts['sizes'] = [3, 4, 5, 6, 8, 10, 12, 16]
        opts['lengths'] = [60, 100, 200, 400]
    return simprops.shard_loop(spec, ID, make_monitors, classify, opts)


def replay(witness):
    boot.init()
    return simprops.replay_witness(witness, make_monitors, ID, classify)
