'''C10 - life-cycle follows the documented state machine and always returns to rest'''

import random

from .. import boot
from ..result import Result, h64, keep_going

fsmsim = None  # imported after boot.init()

ID = 'C10'
LEVEL = 'exploration'
NONTRIVIAL = 'nontrivial'
RULE = (
    'a real FSM() (non doctest mode; only _security/_gui/_logging, farm.plow, the bodies of _pipeline/_reload and the '
    'git helpers of the submit tool are replaced; _archive and _navel_gaze are real on a scratch shelve DB) on the '
    'virtual reactor with every deferToThread step parked. Operations: boot; completion of ANY parked background '
    'step (so load / reload / archive / introspection finish in every order relative to later calls); the wired '
    'entry points fe.submit and fe.api.submit Process (good / failing git step, every priority), farm.dispatch with '
    'and without pending archive, fe.api.cmd_reset; and raw calls of all eight triggers. (1) breadth-first '
    'enumeration of all operation sequences up to a depth bound from boot, merged on the observable state tuple '
    '(exhaustive to that depth), (2) random longer histories. After every operation: each state change recorded at '
    'the instant set_state runs is an edge of the documented machine (kept in the harness, compared with '
    'state.dot too); a call that raises leaves (state, transitioning, prior, priority, changeset, wait events, '
    'archive flag, outstanding steps) untouched; whenever no life-cycle step is outstanding the machine is at rest '
    'in running or gitting with transitioning == active; is_pipeline_active() <=> state running and transitioning '
    'active, and never while a load / reload / archive / introspection step is outstanding; leaving archiving '
    'returns to the state it was entered from; at the end every outstanding step is completed and the machine must '
    'be at rest. A raw trigger that arrives while a life-cycle step is outstanding is not allowed whatever the edges say: '
    'it must be refused with nothing changed (before fix 6554045 it moved the state and then raised); wired calls never raise. non-trivial = sequence in '
    'which a call arrived while a background step was outstanding; distinct = hash(sequence)'
)
ASSUMPTIONS = [
    'background steps complete successfully (a failing load leaves the real machine in loading; not part of the statement)',
    'the body of _pipeline is replaced (graph build and schedule are exercised by C09/C15/C16); git and the compliance spawn of the submit tool are replaced by success/failure stubs',
]
FLOORS = {
    'quick': {'sequences': 2000, 'operations': 10000, 'rejections_checked': 1000, 'bfs_states': 60, 'nontrivial': 500},
    'thorough': {'sequences': 50000, 'operations': 300000, 'nontrivial': 10000},
}
BUDGET = {'quick': 22.0, 'thorough': 420.0}
MANIFEST = dict(
    category='exploration',
    technique='runtime monitor on the real FSM: set_state hook (edge oracle), before/after snapshots around every call, rest/activity/archive-origin invariants after every operation; breadth-first enumeration of operation sequences merged on the observed state + random histories',
    text=(
        'The life-cycle is a small finite machine plus parked background steps: sequences of triggers and step '
        'completions are enumerated breadth-first to a depth bound (all orders of completions relative to calls), '
        'beyond it sampled. The deciding step is the monitor observing the real FSM object, not a model of it.'
    ),
    design='DESIGN.md §2 C10',
    note='Trusted base: transitions library, the harness stubs listed in ASSUMPTIONS.',
)
LIFE_STEPS = {'_pipeline', '_reload', '_archive', '_navel_gaze'}


def plan(tier, seed):
    specs = [{'seed': seed * 1000, 'budget': BUDGET[tier], 'mode': 'bfs', 'depth': 7 if tier == 'quick' else 10}]
    specs += [{'seed': seed * 1000 + i, 'budget': BUDGET[tier], 'mode': 'random'} for i in range(1, 16)]
    return specs


_SIM = []


def get_sim():
    global fsmsim  # pylint: disable=global-statement
    if not _SIM:
        from .. import fsmsim as _f, world  # pylint: disable=import-outside-toplevel
        import pydot  # pylint: disable=import-outside-toplevel

        fsmsim = _f
        pydot.Dot.write_svg = lambda self, *a, **k: True  # rendering only
        _parse = pydot.graph_from_dot_file
        _cache = {}

        def graph_from_dot_file(path, *a, **k):
            # parsing state.dot costs ~40 ms; the FSM only restyles the nodes of the parsed graph
            if path not in _cache:
                _cache[path] = _parse(path, *a, **k)
            return _cache[path]

        pydot.graph_from_dot_file = graph_from_dot_file
        w = world.World(fsm=False)
        w.fresh_db(['T'])
        _SIM.append(fsmsim.FsmSim(w))
    return _SIM[0]


def alphabet(raw=True):
    ops = [('boot',), ('complete', 0), ('complete', 1), ('complete', -1), ('poll',), ('dispatch', False), ('dispatch', True), ('reset', 'true'), ('reset', 'false')]
    for p in ('now', 'crew_idle', 'doing_empty', 'todo_empty'):
        ops.append(('submit', p, True, False))
    ops.append(('submit', 'now', False, False))
    ops.append(('submit', 'todo_empty', True, True))
    if raw:
        ops += [('raw', t) for t in ('starting_trigger', 'contemplation_trigger', 'running_trigger', 'gitting_trigger', 'archiving_trigger', 'update_trigger', 'loading_trigger', 'updating_trigger')]
    return ops


class Run:
    '''executes one sequence on a fresh machine under the monitor'''

    def __init__(self, sim, res):
        self.sim, self.res = sim, res
        self.fsm = sim.new_fsm()
        # the submit waiters poll cooperatively (one call = one round of their loop), see fsmsim
        fsmsim.install_pollers(sim)
        self.bad = []
        self.legit = True
        self.nontrivial = False
        self.seen = 0
        self.origin = None  # state archiving was entered from
        self.booted = False

    def apply(self, op):
        # pylint: disable=too-many-branches,too-many-statements
        sim, fsm, res = self.sim, self.fsm, self.res
        import transitions  # pylint: disable=import-outside-toplevel
        import dawgie.fe.api  # pylint: disable=import-outside-toplevel

        before = sim.snapshot()
        outstanding = [n for n in sim.outstanding() if n in LIFE_STEPS]
        exc = None
        allowed = True
        kind = op[0]
        res.count('operations')
        try:
            if kind == 'boot':
                if self.booted:
                    return 'skip'
                self.booted = True
                fsm.starting_trigger()
            elif kind == 'complete':
                if not sim.rx.parked:
                    return 'skip'
                i = op[1] if -len(sim.rx.parked) <= op[1] < len(sim.rx.parked) else 0
                p = sim.rx.parked.pop(i)
                p.complete()
                sim.drain_reactor()
                from twisted.python.failure import Failure  # pylint: disable=import-outside-toplevel

                if isinstance(p.result, Failure):
                    exc = p.result.value
            elif kind == 'poll':
                live = [p for p in sim.pollers if not p.delivered]
                if not live:
                    return 'skip'
                for p in live:
                    p.tick()
                for p in [p for p in live if p.finished]:
                    p.deliver()
                sim.drain_reactor()
            elif kind == 'dispatch':
                if not self.booted:
                    return 'skip'
                if op[1]:
                    sim.farm.ARCHIVE = True
                sim.dispatch()
            elif kind == 'reset':
                if not self.booted:
                    return 'skip'
                dawgie.fe.api.cmd_reset([op[1]])
            elif kind == 'submit':
                if not self.booted:
                    return 'skip'
                sim.submit(op[1], ok=op[2], api=op[3])
            elif kind == 'raw':
                allowed = any((fsm.state, op[1]) == (s, t) for s, t, _d in fsmsim.EDGES)
                if outstanding:
                    # a trigger arriving while a background step is outstanding is not allowed, whatever the edges say
                    allowed = False
                if not self.booted and op[1] == 'starting_trigger':
                    self.booted = True
                getattr(fsm, op[1])()
        except transitions.MachineError as e:
            exc = e
        except Exception as e:  # pylint: disable=broad-exception-caught
            exc = e
        if outstanding and kind != 'complete':
            self.nontrivial = True
        after = sim.snapshot()
        if kind == 'raw' and not allowed and exc is None:
            self.bad.append(('rejected-without-side-effects', f'{op} is not allowed in state {before[0]} with steps {outstanding} outstanding, but was not refused (now {after[:2]})'))
        # (1) edges
        for src, dst in sim.transitions[self.seen:]:
            res.count('transitions_checked')
            if (src, dst) not in fsmsim.PAIRS:
                self.bad.append(('documented-edges-only', f'{op}: state moved {src} -> {dst}, which is not an edge of the documented machine'))
            if src == 'archiving':
                if self.origin is not None and dst != self.origin and self.legit:
                    self.bad.append(('archive-returns-to-origin', f'{op}: archiving was entered from {self.origin} and left to {dst}'))
                self.origin = None
            if dst == 'archiving':
                self.origin = src
        self.seen = len(sim.transitions)
        # (2) rejected => no side effects
        if exc is not None:
            res.count('rejections_checked')
            if isinstance(exc, transitions.MachineError):
                res.count('machine_errors')
            # "a trigger that is not allowed in the current state is rejected without side effects"
            # (also for a documented-edge trigger that is refused because a background step is outstanding:
            # whatever is refused must be refused before anything changed)
            if before != after and kind == 'raw' and not allowed:
                self.bad.append(('rejected-without-side-effects', f'{op} raised {type(exc).__name__} ({exc}) but the observable state changed {before} -> {after}'))
            elif kind != 'raw' and self.legit:
                self.bad.append(('wired-call-completes', f'{op} raised {type(exc).__name__}: {exc} (state {before[:3]})'))
        # (3) rest
        life = [n for n in sim.outstanding() if n in LIFE_STEPS]
        active = fsm.transitioning == sim.Status.active
        if self.booted and self.legit and not life:
            res.count('rest_checks')
            if fsm.state not in fsmsim.REST or not active:
                self.bad.append(('returns-to-rest', f'{op}: no life-cycle step outstanding but state={fsm.state} transitioning={fsm.transitioning.name}'))
        # (4) activity
        res.count('activity_checks')
        says = fsm.is_pipeline_active()
        if says != (fsm.state == 'running' and active):
            self.bad.append(('active-iff-running-at-rest', f'{op}: is_pipeline_active()={says} with state={fsm.state} transitioning={fsm.transitioning.name}'))
        elif says and life:
            self.bad.append(('active-iff-running-at-rest', f'{op}: is_pipeline_active() is True while {life} is outstanding'))
        return 'ok'

    def finish(self):
        sim, fsm = self.sim, self.fsm
        if not self.booted or self.bad:
            return
        for _ in range(60):
            live = [p for p in sim.pollers if not p.delivered]
            if not sim.rx.parked and not live:
                break
            if sim.rx.parked:
                self.apply(('complete', 0))
            else:
                self.apply(('poll',))
            if self.bad:
                return
        # a submission that is refused (or fails) is answered and releases the front end's busy flag: a trigger
        # refused on its behalf must not leave the request hanging
        for req in sim.requests:
            self.res.count('submissions_followed')
            if not req.finished or len(req.cleared) != 1:
                self.bad.append(('submission-answered', f'submission {req.what}: every step has completed but request finished={req.finished}, busy flag released {len(req.cleared)}x'))
                return
        if sim.rx.parked:
            self.bad.append(('returns-to-rest', f'background steps keep being spawned: {sim.outstanding()}'))
        elif self.legit and (fsm.state not in fsmsim.REST or fsm.transitioning != sim.Status.active):
            self.bad.append(('returns-to-rest', f'all background steps completed; state={fsm.state} transitioning={fsm.transitioning.name}'))

    def key(self):
        sim = self.sim
        s = sim.snapshot()
        return (s[:9], tuple(sim.outstanding()), self.booted, self.legit, self.origin)


def run_sequence(sim, seq, res, finish=True):
    r = Run(sim, res)
    for op in seq:
        r.apply(tuple(op))
        if r.bad:
            break
    key = r.key()
    if finish:
        r.finish()
    res.count('sequences')
    return r, key


def check_dot(sim, res):
    '''the shipped state.dot still is the documented machine'''
    edges = set()
    for e in sim.fsm.graph.get_edges():
        a = e.get_attributes()
        edges.add((a.get('source'), a.get('trigger'), a.get('dest')))
    res.count('dot_edges', len(edges))
    if edges != fsmsim.EDGES:
        return [('documented-edges-only', f'state.dot differs from the documented machine: extra={sorted(edges - fsmsim.EDGES)} missing={sorted(fsmsim.EDGES - edges)}')]
    return []


def run_bfs(spec, res, sim):
    ops = alphabet(raw=True)
    frontier = [[]]
    seen = set()
    depth = 0
    reported = set()
    while frontier and depth < spec['depth'] and (res.elapsed() < spec['budget'] * 1.4 or depth < 4):
        nxt = []
        partial = False
        for seq in frontier:
            if depth >= 4 and res.elapsed() > spec['budget'] * 1.6:
                partial = True  # this level is not finished: it does not count as exhaustive
                break
            for op in ops:
                cand = seq + [list(op)]
                r, key = run_sequence(sim, cand, res)
                if r.nontrivial:
                    res.see('nontrivial', h64(cand))
                for clause, detail in r.bad[:1]:
                    if clause not in reported:
                        reported.add(clause)
                        res.violation(clause, detail, {'seq': cand}, mechanism='C10/' + clause)
                if key not in seen and not r.bad:
                    seen.add(key)
                    nxt.append(cand)
        res.count('bfs_states', len(nxt))
        if partial:
            res.extra['bfs_partial_level'] = depth + 1
            break
        depth += 1
        frontier = nxt
    res.extra['bfs_depth_completed'] = depth
    res.extra['exhaustive_to_depth'] = depth
    res.count('evaluations', res.counters.get('sequences', 0))
    res.sample({'mode': 'bfs', 'depth': depth, 'distinct_states': len(seen), 'alphabet': [list(o) for o in ops][:6]})


def run_random(spec, res, sim):
    rng = random.Random(spec['seed'])
    reported = set()
    n = 0
    while keep_going(res, spec):
        raw = rng.random() < 0.5
        ops = alphabet(raw=raw)
        weights = [6 if o[0] == 'complete' else (3 if o[0] in ('submit', 'poll') else 1) for o in ops]
        seq = [['boot']] + [list(rng.choices(ops, weights)[0]) for _ in range(rng.choice([6, 10, 16, 30]))]
        r, _key = run_sequence(sim, seq, res)
        n += 1
        res.count('evaluations')
        if r.nontrivial:
            res.see('nontrivial', h64(seq))
        if n <= 2:
            res.sample({'mode': 'random', 'sequence': seq[:14], 'final_state': sim.fsm.state})
        for clause, detail in r.bad[:1]:
            if clause not in reported:
                reported.add(clause)
                res.violation(clause, detail, {'seq': seq}, mechanism='C10/' + clause)


def run_shard(spec):
    boot.init()
    boot.stub_dot()
    res = Result()
    sim = get_sim()
    sim.new_fsm()
    for clause, detail in check_dot(sim, res):
        res.violation(clause, detail, {'seq': []}, mechanism='C10/' + clause)
    if spec['mode'] == 'bfs':
        run_bfs(spec, res, sim)
    else:
        run_random(spec, res, sim)
    return res


def replay(witness):
    boot.init()
    boot.stub_dot()
    res = Result()
    sim = get_sim()
    sim.new_fsm()
    for clause, detail in check_dot(sim, res):
        res.violation(clause, detail, witness, mechanism='C10/' + clause)
    r, _ = run_sequence(sim, witness['seq'], res)
    for clause, detail in r.bad[:1]:
        res.violation(clause, detail, witness, mechanism='C10/' + clause)
    res.count('evaluations')
    return res
