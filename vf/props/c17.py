'''C17 - search returns exactly the matching entries, in order, page by page'''

import json
import random

from .. import boot
from ..result import Result, h64, keep_going

ID = 'C17'
LEVEL = 'exploration'
NONTRIVIAL = 'nontrivial'
RULE = (
    'shelve databases with 40-400 primary entries over colliding names, several versions per name and run ids '
    '0..40 (registered through the real db.update / util.append, primary keys written directly). For 40-120 '
    'queries per database - every combination of constraints on run ids (string expressions and lists with '
    'single ids, closed, open-ended, open-started, overlapping and adjacent ranges), targets, tasks, algorithms, '
    'state vectors (known and unknown names) - db.search().find, the front-end entry fe.api.database.search and '
    'the facets (db.search().facet and fe.api.facet.*) are compared with a brute-force filter of '
    'db._prime_keys() using an independent denotation of run-id expressions: set equality at state-vector '
    'granularity, run ids non-decreasing, total = full count, and for several page sizes L every page (k*L, L) '
    'equals the k-th slice of the full list. _scrub is checked to preserve the denotation on the universe '
    '-2..60. non-trivial = query with a range constraint or a page other than the first; distinct = hash(db seed, query)'
)
ASSUMPTIONS = [
    'shelve back end only: dawgie/db/post/search.py needs a PostgreSQL server',
    'a run-id expression whose denotation is exactly {-1} ("the latest") has no implementation independent meaning and is generated only for the _scrub clause',
    'names contain no "." (the result strings are dot separated)',
    'the same state vector stored under two versions yields the same result string twice; set equality is judged, multiplicity is only counted',
]
FLOORS = {
    'quick': {'databases': 40, 'queries_checked': 2000, 'pages_checked': 3000, 'scrub_checks': 2000, 'nontrivial': 800},
    'thorough': {'databases': 1500, 'queries_checked': 80000, 'nontrivial': 30000},
}
BUDGET = {'quick': 22.0, 'thorough': 420.0}
MANIFEST = dict(
    category='exploration',
    technique='runtime oracle: brute-force filter of db._prime_keys() with an independent run-id denotation vs db.search().find / facet / fe.api, page-slice consistency, denotation preservation of _scrub',
    text=(
        'Search correctness is a for-all over database contents, constraint combinations, run-id expressions and '
        'pages; thousands of generated queries per run are answered by the real implementation on generated '
        'databases and compared with a 15-line brute-force filter.'
    ),
    design='DESIGN.md §2 C17',
    note='Trusted base: the brute-force oracle, dbm.dumb. PostgreSQL search out of reach.',
)
UNIVERSE = range(-2, 61)


def plan(tier, seed):
    return [{'seed': seed * 1000 + i, 'budget': BUDGET[tier]} for i in range(16)]


# ---------------------------------------------------------------------------
# run-id expressions: (value for the API, denotation predicate)
def gen_runids(rng, max_run):
    '''returns (string form, list form, set of matching ids within UNIVERSE)'''
    from dawgie.db.basis import Range  # pylint: disable=import-outside-toplevel

    parts_s, parts_l, pred = [], [], []
    for _ in range(rng.choice([1, 1, 2, 3, 4])):
        k = rng.random()
        if k < 0.4:
            v = rng.randint(0, max_run + 2)
            parts_s.append(str(v))
            parts_l.append(v)
            pred.append(lambda x, v=v: x == v)
        elif k < 0.7:
            a = rng.randint(0, max_run)
            b = a + rng.randint(0, 8)
            parts_s.append(f'{a}:{b}')
            parts_l.append(Range(a, b))
            pred.append(lambda x, a=a, b=b: a <= x < b)
        elif k < 0.85:
            a = rng.randint(0, max_run + 2)
            parts_s.append(f'{a}:')
            parts_l.append(Range(a, None))
            pred.append(lambda x, a=a: a <= x)
        else:
            b = rng.randint(0, max_run + 2)
            parts_s.append(f':{b}')
            parts_l.append(Range(0, b))
            pred.append(lambda x, b=b: 0 <= x < b)
    rng.shuffle(parts_s) if False else None
    den = {x for x in UNIVERSE if any(p(x) for p in pred)}
    return ','.join(parts_s), parts_l, den


def denote(runidset):
    '''independent denotation of a scrubbed list (ints and Range objects)'''
    out = set()
    for e in runidset:
        if isinstance(e, int):
            if e in UNIVERSE:
                out.add(e)
        else:
            for x in UNIVERSE:
                if e.start <= x and (e.stop is None or x < e.stop):
                    out.add(x)
    return out


def check_scrub(rng, res):
    from dawgie.db.basis import Params, SearchFacade  # pylint: disable=import-outside-toplevel

    s, lst, den = gen_runids(rng, 40)
    if rng.random() < 0.2:
        # -1 as an ordinary literal next to other things
        s, lst, den = s + ',-1', lst + [-1], den | {-1}
    for form in (s, lst):
        res.count('scrub_checks')
        got = SearchFacade._scrub(Params(runids=form)).runids  # pylint: disable=protected-access
        if denote(got) != den:
            return ('scrub-preserves-denotation', f'_scrub({form!r}) = {got}, which denotes {sorted(denote(got) ^ den)[:8]} differently (within -2..60)')
        # normal form: ranges sorted and disjoint
    return None


# ---------------------------------------------------------------------------
def build_db(sim, rng):
    '''a database with colliding names; returns the list of entry dicts'''
    import dawgie.db  # pylint: disable=import-outside-toplevel
    from dawgie.db.shelve import util  # pylint: disable=import-outside-toplevel
    from dawgie.db.shelve.state import DBI  # pylint: disable=import-outside-toplevel
    from dawgie.db.shelve.util import LocalVersion as LV  # pylint: disable=import-outside-toplevel

    targets = rng.sample(['T', 'T1', 'T10', 'Tx', 'A b', 'tgt (s)'], rng.randint(2, 5))
    sim.fresh(targets)
    t, ix = DBI().tables, DBI().indices
    elements = []  # (task, alg, algver, sv, svver, v, vver)
    for _ in range(rng.randint(6, 30)):
        e = (rng.choice(['tk', 'tk2', 't']), rng.choice(['alg', 'alg2', 'a', 'ab']), (1, rng.randint(0, 1), 0),
             rng.choice(['sv', 'sv1', 's']), (1, 0, rng.randint(0, 1)), rng.choice(['v', 'val', 'v1']), (1, 0, 0))
        elements.append(e)
    ids = {}
    for e in elements:
        tkid = util.append(e[0], t.task, ix.task)[1]
        aid = util.append(e[1], t.alg, ix.alg, tkid, LV(list(e[2])))[1]
        sid = util.append(e[3], t.state, ix.state, aid, LV(list(e[4])))[1]
        vid = util.append(e[5], t.value, ix.value, sid, LV(list(e[6])))[1]
        ids[e] = (tkid, aid, sid, vid)
    n = rng.choice([40, 80, 150, 400])
    max_run = rng.choice([5, 12, 40])
    for i in range(n):
        e = rng.choice(elements)
        run = rng.randint(0, max_run) if rng.random() < 0.95 else rng.randint(0, 3)
        tg = rng.choice(targets)
        key = (run, t.target[tg]) + ids[e]
        t.prime[str(key)] = 'blob%d' % i
    del dawgie

    def grow(rng2):
        '''the database keeps living: new versions of known names, known algorithm names under other tasks, new runs'''
        more = []
        for _ in range(rng2.randint(3, 10)):
            e = rng2.choice(elements)
            k = rng2.random()
            if k < 0.4:
                e2 = (e[0], e[1], (e[2][0] + 1, 0, 0), e[3], e[4], e[5], e[6])  # algorithm re-versioned: new ids all the way down
            elif k < 0.7:
                e2 = (rng2.choice(['tk', 'tk2', 't', 'tk3']), e[1], e[2], e[3], e[4], e[5], e[6])  # same algorithm name in another task
            else:
                e2 = (e[0], e[1], e[2], e[3], (e[4][0], e[4][1] + 1, 0), e[5], e[6])  # state vector re-versioned
            tkid = util.append(e2[0], t.task, ix.task)[1]
            aid = util.append(e2[1], t.alg, ix.alg, tkid, LV(list(e2[2])))[1]
            sid = util.append(e2[3], t.state, ix.state, aid, LV(list(e2[4])))[1]
            vid = util.append(e2[5], t.value, ix.value, sid, LV(list(e2[6])))[1]
            ids[e2] = (tkid, aid, sid, vid)
            more.append(e2)
        for i in range(rng2.randint(10, 60)):
            e = rng2.choice(more)
            run = rng2.randint(0, max_run + 3)
            key = (run, t.target[rng2.choice(targets)]) + ids[e]
            t.prime[str(key)] = 'grown%d' % i
        elements.extend(more)

    return max_run, targets, grow


def brute(keys, den, targets, tasks, algs, svs):
    '''state-vector granularity strings'''
    out = set()
    for k in keys:
        run, tg, tk, an, sv, _v = k.split('.')
        if den is not None and int(run) not in den:
            continue
        if targets is not None and tg not in targets:
            continue
        if tasks is not None and tk not in tasks:
            continue
        if algs is not None and an not in algs:
            continue
        if svs is not None and sv not in svs:
            continue
        out.add(f'{run}.{tg}.{tk}.{an}.{sv}')
    return out


def pick(rng, pool, p=0.35):
    if rng.random() > p:
        return None
    names = rng.sample(pool, rng.randint(1, min(2, len(pool))))
    if rng.random() < 0.15:
        names.append('nosuchname')
    return names


def run_db(sim, dseed, res, thorough=False, only_query=None):
    # pylint: disable=too-many-locals,too-many-branches,too-many-statements
    import dawgie.db  # pylint: disable=import-outside-toplevel
    import dawgie.fe.api.database as apidb  # pylint: disable=import-outside-toplevel
    import dawgie.fe.api.facet as apifacet  # pylint: disable=import-outside-toplevel
    from dawgie.db.basis import Params  # pylint: disable=import-outside-toplevel

    rng = random.Random(dseed)
    max_run, targets, grow = build_db(sim, rng)
    keys = dawgie.db._prime_keys()  # pylint: disable=protected-access
    res.count('databases')
    res.count('primary_entries', len(keys))
    bad = []
    nq = rng.choice([40, 80, 120]) if not thorough else 200
    grow_at = {nq // 2, (3 * nq) // 4}
    for qi in range(nq):
        qrng = random.Random(f'{dseed}/{qi}')
        if qi in grow_at:
            # searches were answered, then the database grows, then the same kinds of searches are asked again
            grow(random.Random(f'{dseed}/grow{qi}'))
            keys = dawgie.db._prime_keys()  # pylint: disable=protected-access
            res.count('database_growth_steps')
        if only_query is not None and qi > only_query:
            break  # (a replay re-asks everything up to the failing query: answers may depend on earlier ones)
        b = check_scrub(qrng, res)
        if b:
            bad.append(b + ({'dseed': dseed, 'query': qi},))
            break
        use_runs = qrng.random() < 0.6
        s, lst, den = gen_runids(qrng, max_run) if use_runs else (None, None, None)
        form = qrng.choice(['str', 'list'])
        tg = pick(qrng, targets)
        tk = pick(qrng, ['tk', 'tk2', 't'])
        an = pick(qrng, ['alg', 'alg2', 'a', 'ab'])
        sv = pick(qrng, ['sv', 'sv1', 's'])
        want = brute(keys, den, tg, tk, an, sv)
        params = Params(runids=(s if form == 'str' else lst) if use_runs else None, targets=tg, tasks=tk, algs=an, svs=sv, vals=None)
        desc = f'find(runids={s!r} [{form}], targets={tg}, tasks={tk}, algs={an}, svs={sv})'
        wit = {'dseed': dseed, 'query': qi, 'tier': 'thorough' if thorough else 'quick'}
        res.count('queries_checked')
        has_range = bool(use_runs and ':' in s)
        if has_range:
            res.see('nontrivial', h64([dseed, qi]))
        try:
            full = dawgie.db.search().find(params)
            got = set(full.items)
            if got != want:
                bad.append(('exact-matches', f'{desc}: {len(got)} distinct results, brute force finds {len(want)}; missing={sorted(want - got)[:3]} unexpected={sorted(got - want)[:3]}', wit))
                break
            if len(got) != len(full.items):
                res.count('obs_duplicate_strings_from_versions')
            runs = [int(x.split('.')[0]) for x in full.items]
            if runs != sorted(runs):
                bad.append(('ascending-run-id', f'{desc}: run ids of the result are {runs[:12]}', wit))
                break
            if full.total != len(full.items):
                bad.append(('total-is-full-count', f'{desc}: total={full.total}, full result has {len(full.items)} items', wit))
                break
            # pages
            for L in qrng.sample([1, 2, 3, 5, 7, 10, 25], 3):
                k = 0
                cat = []
                while k * L < max(len(full.items), 1) + L:
                    page = dawgie.db.search().find(params, k * L, L)
                    res.count('pages_checked')
                    if k > 0:
                        res.see('nontrivial', h64([dseed, qi, L, k]))
                    if page.items != full.items[k * L : (k + 1) * L]:
                        bad.append(('pages-concatenate', f'{desc}: page (index={k * L}, limit={L}) has {len(page.items)} items {page.items[:3]}, '
                                    f'slice [{k * L}:{(k + 1) * L}] of the full list has {len(full.items[k * L:(k + 1) * L])} {full.items[k * L:(k + 1) * L][:3]}', wit))
                        break
                    if page.total != full.total:
                        bad.append(('total-is-full-count', f'{desc}: page (index={k * L}, limit={L}) reports total {page.total}, full count {full.total}', wit))
                        break
                    cat += page.items
                    k += 1
                if bad:
                    break
            if bad:
                break
            # front-end entry (string arguments as the HTTP layer passes them)
            if qrng.random() < 0.4:
                L = qrng.choice([2, 5, 50])
                idx = qrng.choice([0, L, 2 * L])
                ret = apidb.search(
                    runids=[s] if use_runs else None, targets=[','.join(tg)] if tg else None, tasks=[','.join(tk)] if tk else None,
                    algs=[','.join(an)] if an else None, svs=[','.join(sv)] if sv else None, index=[str(idx)], limit=[str(L)],
                )
                res.count('api_queries')
                content = json.loads(ret)['content']
                if content['items'] != full.items[idx : idx + L] or content['total'] != full.total:
                    bad.append(('pages-concatenate', f'fe.api.database.search {desc} index={idx} limit={L}: {len(content["items"])} items, expected slice of {len(full.items[idx:idx + L])}', wit))
                    break
            # facets: leave one of target/task/alg/sv open
            which = qrng.choice(['targets', 'tasks', 'algs', 'svs'])
            cons = {'targets': tg, 'tasks': tk, 'algs': an, 'svs': sv}
            cons[which] = None
            wantf = brute(keys, den, cons['targets'], cons['tasks'], cons['algs'], cons['svs'])
            col = {'targets': 1, 'tasks': 2, 'algs': 3, 'svs': 4}[which]
            wantn = sorted({x.split('.')[col] for x in wantf})
            fp = dict(cons)
            fp[which] = []
            gotn = dawgie.db.search().facet(Params(runids=(s if form == 'str' else lst) if use_runs else None, vals=None, **fp))
            res.count('facets_checked')
            if sorted(gotn) != wantn:
                bad.append(('facet-projection', f'facet({which}) under runids={s!r} {cons}: {sorted(gotn)[:6]}, brute force {wantn[:6]}', wit))
                break
            if qrng.random() < 0.3:
                fn = {'targets': apifacet.target, 'tasks': apifacet.task, 'algs': apifacet.alg, 'svs': apifacet.sv}[which]
                kw = {k2: [','.join(v)] for k2, v in cons.items() if v and k2 != which}
                if use_runs:
                    kw['runids'] = [s]
                content = json.loads(fn(**kw))['content']
                res.count('api_facets')
                if sorted(content) != wantn:
                    bad.append(('facet-projection', f'fe.api.facet.{which} {kw}: {sorted(content)[:6]}, brute force {wantn[:6]}', wit))
                    break
        except Exception as e:  # pylint: disable=broad-exception-caught
            bad.append(('query-answers', f'{desc} raised {type(e).__name__}: {e}', wit))
            break
    return bad


_SIM = []


def get_sim():
    if not _SIM:
        from .. import dbsim, world  # pylint: disable=import-outside-toplevel

        _SIM.append(dbsim.DbSim(world.World(fsm=False)))
    return _SIM[0]


def run_shard(spec):
    boot.init()
    res = Result()
    sim = get_sim()
    rng = random.Random(spec['seed'])
    n = 0
    seen = set()
    while keep_going(res, spec) or n < 3:
        dseed = rng.getrandbits(48)
        bad = run_db(sim, dseed, res, thorough=spec['tier'] == 'thorough')
        n += 1
        res.count('evaluations')
        if n <= 2:
            res.sample({'db_seed': dseed, 'note': 'queries are regenerated from the seed; see RULE'})
        for clause, detail, wit in bad[:1]:
            if clause in seen:
                continue
            seen.add(clause)
            res.violation(clause, detail, wit, mechanism='C17/' + clause)
    return res


def replay(witness):
    boot.init()
    res = Result()
    sim = get_sim()
    bad = run_db(sim, witness['dseed'], res, thorough=witness.get('tier') == 'thorough', only_query=witness.get('query'))
    for clause, detail, wit in bad[:1]:
        res.violation(clause, detail, witness, mechanism='C17/' + clause)
    res.count('evaluations')
    return res
