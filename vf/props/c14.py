'''C14 - message streams are fragmentation-proof and gated by the handshake'''

import itertools
import logging
import pickle
import os
import random
import struct
import types

from twisted.internet.address import IPv4Address
from twisted.internet.testing import StringTransport

from .. import boot
from ..result import Result, h64, keep_going

ID = 'C14'
LEVEL = 'exploration'
NONTRIVIAL = 'nontrivial'
RULE = (
    'message sequences for the three channels (farm.Hand: register/status/response/wait messages with random '
    'payloads; shelve.comms.Worker: acquire+release and single get/table/append/upd requests; logger.LogSink: log '
    'records) are encoded by the real senders (message.send, SocketHandler.makePickle, the Connector framing) into '
    'one byte stream. The consumer (_process / do / handler.handle) is replaced by a recorder on a fresh protocol '
    'instance per chunking. Chunkings: whole stream, byte-at-a-time, EVERY 2-cut of streams <= 300 bytes '
    '(exhaustive; every 3-cut in thorough), random k-cuts of longer streams. Recorded sequence must equal the '
    'sent sequence. Handshake (legacy mode, real TwistedWrapper, real security._send for the client half, a '
    'stand-in PGP object that validates envelope + key): for every 2-cut of each client packet and of packet-2 + '
    'application bytes, and for each fault {bad first signature, first length prefix != 4, second prefix != 4, '
    'wrong echo, bad second signature}: no consumer call before the echo was verified; bytes following the final '
    'handshake packet are delivered afterwards in order; any failure => loseConnection and nothing delivered, also '
    'for bytes in the same chunk. non-trivial = chunking that splits a frame header or a handshake packet; '
    'distinct = hash(stream, cut)'
)
ASSUMPTIONS = [
    'after transport.loseConnection() no further dataReceived happens (Twisted stops reading); the harness models that',
    'the PGP object is a stand-in with the verify/decrypt/sign interface (valid <=> well-formed envelope of a known key); real gpg is not exercised',
    'database channel sequences are protocol conform (one request per connection, or acquire then release)',
]
FLOORS = {
    'quick': {'chunkings': 20000, 'streams': 200, 'handshake_runs': 3000, 'handshake_fault_runs': 1000, 'nontrivial': 5000},
    'thorough': {'chunkings': 1000000, 'handshake_runs': 100000, 'nontrivial': 100000},
}
BUDGET = {'quick': 22.0, 'thorough': 420.0}
MANIFEST = dict(
    category='exploration',
    technique='runtime differential monitor: recorder in place of each protocol\'s consumer, every 2-cut (3-cut) of the byte stream vs the sent message sequence; handshake fault matrix x chunkings on the real TwistedWrapper',
    text=(
        'For short streams every split position (and every pair, in thorough) is enumerated, which is the '
        'quantifier of the property for those streams; message sequences and longer streams are sampled. The '
        'handshake is driven through the real wrapper with signature validity, length prefixes and echo as '
        'generated inputs.'
    ),
    design='DESIGN.md §2 C14',
    note='Trusted base: CPython pickle/struct, Twisted StringTransport, the stand-in PGP object, the harness.',
)
ADDR = IPv4Address('TCP', '10.9.8.7', 45000)


def plan(tier, seed):
    return [{'seed': seed * 1000 + i, 'budget': BUDGET[tier]} for i in range(16)]


# ---------------------------------------------------------------------------
# stand-in for the gnupg object
class FakePGP:
    KEYS = (b'worker-key', b'ops-key')

    class R:  # pylint: disable=too-few-public-methods
        def __init__(self, valid=False, data=b'', status=''):
            self.valid, self.data, self.status = valid, data, status

    def __init__(self):
        self.sign_key = b'worker-key'
        self.corrupt_next = False

    @staticmethod
    def _parse(blob):
        if isinstance(blob, str):
            blob = blob.encode()
        if not blob.startswith(b'-----SIGNED:') or not blob.endswith(b'\n-----END'):
            return None, None
        head, _, rest = blob.partition(b'\n')
        return head[len(b'-----SIGNED:'):], rest[: -len(b'\n-----END')]

    def verify(self, blob):
        key, _ = self._parse(blob)
        return FakePGP.R(valid=key in self.KEYS)

    def decrypt(self, blob):
        _, payload = self._parse(blob)
        return FakePGP.R(valid=True, data=payload or b'')

    def sign(self, message, passphrase=None, clearsign=True):  # pylint: disable=unused-argument
        if isinstance(message, str):
            message = message.encode()
        data = b'-----SIGNED:' + self.sign_key + b'\n' + message + b'\n-----END'
        if self.corrupt_next:
            self.corrupt_next = False
            data = b'-----FORGED:' + data[12:]
        return FakePGP.R(valid=True, data=data, status='ok')


class Collect:
    '''socket-like sink for the real senders'''

    def __init__(self):
        self.data = b''

    def sendall(self, b):
        self.data += b

    send = sendall


# ---------------------------------------------------------------------------
# channels
class Channel:
    name = '?'

    def fresh(self):
        '''-> (protocol, transport, recorded list)'''
        raise NotImplementedError

    def gen(self, rng):
        '''-> (messages, stream bytes)'''
        raise NotImplementedError

    def same(self, got, sent):
        return got == sent


class FarmChannel(Channel):
    name = 'farm.Hand'

    def fresh(self):
        import dawgie.pl.farm as farm  # pylint: disable=import-outside-toplevel

        p = farm.Foreman().buildProtocol(ADDR)
        tr = StringTransport(peerAddress=ADDR)
        p.makeConnection(tr)
        rec = []
        p._process = rec.append  # pylint: disable=protected-access
        return p, tr, rec

    def gen(self, rng):
        import dawgie.pl.message as message  # pylint: disable=import-outside-toplevel

        msgs = []
        for _ in range(rng.choice([1, 2, 3, 5])):
            k = rng.random()
            if k < 0.3:
                m = message.make(typ=message.Type.register, inc=rng.randint(0, 9), rev='r%d' % rng.randint(0, 99))
            elif k < 0.5:
                m = message.make(typ=message.Type.status, rev='rev' * rng.randint(0, 3))
            elif k < 0.6:
                m = message.make()
            else:
                vals = [(f'{rng.randint(1, 50)}.T.tk.a.sv.v{i}', rng.random() < 0.5) for i in range(rng.choice([0, 1, 4, 40]))]
                m = message.make(
                    typ=message.Type.response, inc=rng.choice([None, 'T0', 'target-' + 'x' * rng.randint(0, 40)]),
                    jid='tk.alg', rid=rng.randint(0, 10**6), suc=rng.choice([True, False, None]),
                    tim={'started': 's', 'x': 'y' * rng.choice([0, 5, 250])}, val=vals,
                )
            msgs.append(m)
        sink = Collect()
        for m in msgs:
            message.send(m, sink)
        return msgs, sink.data


class DbChannel(Channel):
    name = 'shelve.comms.Worker'

    def fresh(self):
        import dawgie.db.shelve.comms as comms  # pylint: disable=import-outside-toplevel

        p = comms.DBSerializer().buildProtocol(ADDR)
        tr = StringTransport(peerAddress=ADDR)
        p.makeConnection(tr)
        rec = []
        p.do = rec.append
        return p, tr, rec

    def gen(self, rng):
        import dawgie.db.shelve.comms as comms  # pylint: disable=import-outside-toplevel
        from dawgie.db.shelve.enums import Func, Table  # pylint: disable=import-outside-toplevel

        k = rng.random()
        if k < 0.4:
            msgs = [comms.COMMAND(Func.acquire, None, None, 'load: T.tk.' + 'a' * rng.randint(0, 60)), comms.COMMAND(Func.release, None, None, None)]
        elif k < 0.55:
            msgs = [comms.COMMAND(Func.get, (rng.randint(1, 99), 0, 1, 2, 3, 4), Table.prime, None)]
        elif k < 0.7:
            msgs = [comms.COMMAND(Func.table, None, Table.target, None)]
        elif k < 0.85:
            msgs = [comms.COMMAND(Func.append, None, Table.target, 'T' * rng.randint(1, 80))]
        else:
            msgs = [comms.COMMAND(Func.upd, comms.KEYSET('alg', rng.randint(0, 9), '1.2.3'), Table.alg, None)]
        data = b''
        for m in msgs:
            b = pickle.dumps(m, pickle.HIGHEST_PROTOCOL)  # framing exactly as Connector.__do / comms.acquire
            data += struct.pack('>I', len(b)) + b
        return msgs, data


class LogChannel(Channel):
    name = 'logger.LogSink'

    class Actual:
        def __init__(self, rec):
            self.rec = rec

        def handle(self, record):
            self.rec.append(record)

        def flush(self):
            pass

    def fresh(self):
        import dawgie.pl.logger as logger  # pylint: disable=import-outside-toplevel

        rec = []
        p = logger.LogSink(LogChannel.Actual(rec), ADDR)
        tr = StringTransport(peerAddress=ADDR)
        p.makeConnection(tr)
        return p, tr, rec

    def gen(self, rng):
        import dawgie.pl.logger as logger  # pylint: disable=import-outside-toplevel

        h = logger.TwistedHandler('localhost', 1)
        msgs, data = [], b''
        for i in range(rng.choice([1, 2, 4])):
            r = logging.LogRecord('dawgie.x' + 'y' * rng.randint(0, 20), rng.choice([10, 20, 30, 40]), 'f.py', i, 'msg %s ' + 'z' * rng.choice([0, 10, 300]), (i,), None)
            msgs.append(r)
            data += h.makePickle(r)
        return msgs, data

    def same(self, got, sent):
        if len(got) != len(sent):
            return False
        return all(g.name == s.name and g.levelno == s.levelno and g.getMessage() == s.getMessage() for g, s in zip(got, sent))


CHANNELS = [FarmChannel(), DbChannel(), LogChannel()]


def deliver(proto, tr, chunks):
    '''what the reactor does: dataReceived per chunk, nothing after loseConnection'''
    n = 0
    for c in chunks:
        if tr.disconnecting:
            break
        proto.dataReceived(c)
        n += 1
    return n


def cuts_of(data, cut):
    pos = [0] + list(cut) + [len(data)]
    return [data[pos[i]: pos[i + 1]] for i in range(len(pos) - 1)]


def chunkings(data, rng, tier):
    '''yield (label, cut positions)'''
    n = len(data)
    yield 'whole', ()
    if n <= 2000:
        yield 'bytewise', tuple(range(1, n))
    if n <= 300:
        for i in range(1, n):
            yield '2cut', (i,)
        if tier == 'thorough' and n <= 120:
            for i, j in itertools.combinations(range(1, n), 2):
                yield '3cut', (i, j)
        else:
            for _ in range(60):
                yield '3cut-sampled', tuple(sorted(rng.sample(range(1, n), 2))) if n > 3 else (1,)
    else:
        for _ in range(120):
            k = rng.choice([1, 2, 3, 5, 9])
            yield 'kcut-sampled', tuple(sorted(rng.sample(range(1, n), min(k, n - 1))))
        # every cut position near frame headers of the first 2 frames
        for i in range(1, min(n, 16)):
            yield '2cut-head', (i,)


def run_framing(rng, res, tier, case=None):
    bad = []
    if case is None:
        ch = rng.choice(CHANNELS)
        msgs, data = ch.gen(rng)
        if len(data) > 300 and rng.random() < 0.5:
            msgs, data = ch.gen(rng)  # bias toward short streams (exhaustive cuts)
        case = {'channel': ch.name, 'stream': data.hex(), 'cut': None}
    ch = [c for c in CHANNELS if c.name == case['channel']][0]
    data = bytes.fromhex(case['stream'])
    # the reference is the stream delivered one message per chunk - decoded by an independent parser
    sent = []
    buf = data
    while len(buf) >= 4:
        (n,) = struct.unpack('>I', buf[:4])
        obj = pickle.loads(buf[4: 4 + n])
        sent.append(logging.makeLogRecord(obj) if ch.name == 'logger.LogSink' else obj)
        buf = buf[4 + n:]
    headers = set()
    off = 0
    for_hdr = data
    while off < len(for_hdr):
        (n,) = struct.unpack('>I', for_hdr[off: off + 4])
        headers.update(range(off + 1, off + 4))
        off += 4 + n
    todo = [('replay', tuple(case['cut']))] if case['cut'] is not None else chunkings(data, rng, tier)
    for label, cut in todo:
        p, tr, rec = ch.fresh()
        try:
            deliver(p, tr, cuts_of(data, cut))
        except Exception as e:  # pylint: disable=broad-exception-caught
            bad.append(('fragmentation-proof', f'{ch.name}: stream of {len(data)} bytes cut at {list(cut)[:6]} ({label}): dataReceived raised {type(e).__name__}: {e}', dict(case, cut=list(cut))))
            break
        res.count('chunkings')
        res.count('chunking_' + label)
        if set(cut) & headers:
            res.see('nontrivial', h64([case['stream'][:64], cut]))
        # protocol-conform stop: the db channel closes after a non-acquire request
        want = sent
        if not ch.same(rec, want):
            bad.append(
                ('fragmentation-proof',
                 f'{ch.name}: stream of {len(data)} bytes / {len(sent)} messages cut at {list(cut)[:6]} ({label}) delivered {len(rec)} messages '
                 f'{"(different content)" if len(rec) == len(want) else ""}',
                 dict(case, cut=list(cut)))
            )
            break
    return bad, case


def decode_stream(ch, data):
    sent = []
    buf = data
    while len(buf) >= 4:
        (n,) = struct.unpack('>I', buf[:4])
        obj = pickle.loads(buf[4: 4 + n])
        sent.append(logging.makeLogRecord(obj) if ch.name == 'logger.LogSink' else obj)
        buf = buf[4 + n:]
    return sent


def run_interleaved(rng, res, case=None):
    '''two or three connections of one channel receive their fragments interleaved:
    partial-frame state is per connection'''
    bad = []
    if case is None:
        ch = rng.choice(CHANNELS)
        streams = [ch.gen(rng)[1] for _ in range(rng.choice([2, 2, 3]))]
        plan = []
        for i, d in enumerate(streams):
            k = min(len(d) - 1, rng.choice([1, 2, 3, 6]))
            cut = sorted(rng.sample(range(1, len(d)), k)) if len(d) > 1 else []
            plan.append(cut)
        order = []
        left = [len(c) + 1 for c in plan]
        while any(left):
            i = rng.choice([j for j, n in enumerate(left) if n])
            order.append(i)
            left[i] -= 1
        case = {'channel': ch.name, 'streams': [d.hex() for d in streams], 'cuts': plan, 'order': order, 'interleaved': True}
    ch = [c for c in CHANNELS if c.name == case['channel']][0]
    streams = [bytes.fromhex(h) for h in case['streams']]
    conns = [ch.fresh() for _ in streams]
    chunks = [cuts_of(d, c) for d, c in zip(streams, case['cuts'])]
    pos = [0] * len(streams)
    for i in case['order']:
        p, tr, _rec = conns[i]
        if pos[i] < len(chunks[i]) and not tr.disconnecting:
            try:
                p.dataReceived(chunks[i][pos[i]])
            except Exception as e:  # pylint: disable=broad-exception-caught
                bad.append(('fragmentation-proof', f'{ch.name}: connection {i} of {len(streams)} interleaved connections raised {type(e).__name__}: {e}', case))
                return bad, case
        pos[i] += 1
    res.count('chunkings')
    res.count('interleaved_connection_runs')
    res.see('nontrivial', h64([case['streams'][0][:40], case['cuts'], case['order']]))
    for i, (d, (_p, _tr, rec)) in enumerate(zip(streams, conns)):
        want = decode_stream(ch, d)
        if not ch.same(rec, want):
            bad.append(('fragmentation-proof', f'{ch.name}: connection {i} of {len(streams)} whose fragments were interleaved with the others delivered '
                        f'{len(rec)} messages, {len(want)} were sent to it', case))
            break
    return bad, case


# ---------------------------------------------------------------------------
# handshake
FAULTS = [None, 'bad-first-signature', 'first-prefix-not-4', 'second-prefix-not-4', 'wrong-echo', 'bad-second-signature', 'garbage-first']


def run_handshake(rng, res, tier, case=None):
    '''legacy mode: real TwistedWrapper around each protocol'''
    # pylint: disable=too-many-locals,too-many-branches,too-many-statements
    import dawgie.security as sec  # pylint: disable=import-outside-toplevel

    bad = []
    if case is None:
        ch = rng.choice(CHANNELS)
        _msgs, app = ch.gen(rng)
        if len(app) > 400:
            _msgs, app = ch.gen(rng)
        case = {'channel': ch.name, 'app': app.hex(), 'fault': rng.choice(FAULTS + [None, None]), 'cutA': None, 'cutB': None,
                'hid': 'machine: 10.0.0.1\nuser: ' + 'u' * rng.randint(1, 30)}
    ch = [c for c in CHANNELS if c.name == case['channel']][0]
    app = bytes.fromhex(case['app'])
    fault = case['fault']
    sent = []
    buf = app
    while len(buf) >= 4:
        (n,) = struct.unpack('>I', buf[:4])
        obj = pickle.loads(buf[4: 4 + n])
        sent.append(logging.makeLogRecord(obj) if ch.name == 'logger.LogSink' else obj)
        buf = buf[4 + n:]
    saved = dict(sec._myself), sec._PGP  # pylint: disable=protected-access
    sec._myself.clear()  # pylint: disable=protected-access
    pgp = FakePGP()
    sec._PGP = pgp  # pylint: disable=protected-access
    try:
        def attempt(cut_a, cut_b):
            '''one connection; returns (recorded, disconnected, delivered_before_verified)'''
            p, tr, rec = ch.fresh()
            # packet 1 by the real client code
            sink = Collect()
            pgp.sign_key = b'intruder' if fault == 'bad-first-signature' else b'worker-key'
            sec._send(sink, case['hid'])  # pylint: disable=protected-access
            pkt1 = sink.data
            if fault == 'first-prefix-not-4':
                pkt1 = struct.pack('>I', 5) + pkt1[4:]
            if fault == 'garbage-first':
                pkt1 = pkt1[:8] + b'\x00' * (len(pkt1) - 8)
            deliver(p, tr, cuts_of(pkt1, cut_a))
            early = len(rec)
            challenge = tr.value()
            tr.clear()
            if tr.disconnecting or len(challenge) < 4:
                # refused at packet 1: whatever else the client sends must go nowhere
                deliver(p, tr, [app])
                return rec, tr.disconnecting, early, 'refused-1'
            (n,) = struct.unpack('>I', challenge[:4])
            text = challenge[4: 4 + n]
            sink = Collect()
            pgp.sign_key = b'intruder' if fault == 'bad-second-signature' else b'worker-key'
            sec._send(sink, (text + b' tampered') if fault == 'wrong-echo' else text)  # pylint: disable=protected-access
            pkt2 = sink.data
            if fault == 'second-prefix-not-4':
                pkt2 = struct.pack('>I', 3) + pkt2[4:]
            stream = pkt2 + app
            # consumer calls that happen before the last byte of packet 2 has been delivered
            chunks = cuts_of(stream, cut_b)
            seen = 0
            pre = 0
            for c in chunks:
                if tr.disconnecting:
                    break
                before = len(rec)
                p.dataReceived(c)
                if seen + len(c) < len(pkt2):
                    pre += len(rec) - before
                seen += len(c)
            return rec, tr.disconnecting, early + pre, len(pkt2)

        # probe lengths
        sink = Collect()
        pgp.sign_key = b'worker-key'
        sec._send(sink, case['hid'])  # pylint: disable=protected-access
        len1 = len(sink.data)
        if case['cutA'] is not None:
            plans = [(tuple(case['cutA']), tuple(case['cutB']))]
        else:
            plans = [((), ())]
            plans += [((i,), ()) for i in range(1, len1)] if len1 <= 400 else []
            # packet 2 length is only known after a run; use a first run to learn it
            try:
                _r, _d, _e, l2 = attempt((), ())
            except Exception:  # pylint: disable=broad-exception-caught
                l2 = None  # reported by the loop below
            if isinstance(l2, int):
                tot = l2 + len(app)
                pos = list(range(1, tot)) if tot <= 500 else sorted(set(list(range(1, 24)) + list(range(max(1, l2 - 12), min(tot, l2 + 24))) + rng.sample(range(1, tot), 60)))
                plans += [((), (i,)) for i in pos]
                plans += [((), tuple(range(1, tot)))] if tot <= 1500 else []
                for _ in range(30):
                    plans.append(((rng.randint(1, len1 - 1),), tuple(sorted(rng.sample(range(1, tot), min(3, tot - 1))))))
        for cut_a, cut_b in plans:
            try:
                rec, disc, early, l2 = attempt(cut_a, cut_b)
            except Exception as e:  # pylint: disable=broad-exception-caught
                bad.append(('delivered-after-handshake', f'{ch.name}: handshake run (fault={fault}, cuts {cut_a}/{cut_b}) raised {type(e).__name__}: {e}',
                            dict(case, cutA=list(cut_a), cutB=list(cut_b))))
                break
            res.count('handshake_runs')
            if fault:
                res.count('handshake_fault_runs')
            res.count('handshake_' + (fault or 'good'))
            if cut_a or (isinstance(l2, int) and any(c < l2 for c in cut_b)):
                res.see('nontrivial', h64([case['app'][:40], fault, cut_a, cut_b]))
            wit = dict(case, cutA=list(cut_a), cutB=list(cut_b))
            if early:
                bad.append(('gated-by-handshake', f'{ch.name}: {early} message(s) processed before the echoed challenge was verified (fault={fault}, cuts {cut_a}/{cut_b})', wit))
                break
            if fault is None:
                if disc and ch.name != 'shelve.comms.Worker':
                    bad.append(('good-handshake-accepted', f'{ch.name}: well-formed handshake was refused (cuts {cut_a}/{cut_b})', wit))
                    break
                if not ch.same(rec, sent):
                    bad.append(('delivered-after-handshake', f'{ch.name}: {len(sent)} application messages followed the handshake, '
                                f'{len(rec)} were delivered{" (content differs)" if len(rec) == len(sent) else ""} (cuts {cut_a}/{cut_b})', wit))
                    break
            else:
                if rec:
                    bad.append(('failed-handshake-delivers-nothing', f'{ch.name}: fault={fault}: {len(rec)} message(s) processed (cuts {cut_a}/{cut_b})', wit))
                    break
                if not disc:
                    bad.append(('failed-handshake-closes', f'{ch.name}: fault={fault}: connection was not closed (cuts {cut_a}/{cut_b})', wit))
                    break
    finally:
        sec._myself.update(saved[0])  # pylint: disable=protected-access
        sec._PGP = saved[1]  # pylint: disable=protected-access
    return bad, case


def run_shard(spec):
    boot.init()
    from .. import world  # pylint: disable=import-outside-toplevel

    world.World(fsm=False).fresh_db()
    res = Result()
    rng = random.Random(spec['seed'])
    n = 0
    while keep_going(res, spec):
        n += 1
        bad, case = shard_step(n, rng, res, spec['tier'])
        res.count('evaluations')
        if n <= 3:
            res.sample({k: (v[:80] + '...' if isinstance(v, str) and len(v) > 80 else v) for k, v in case.items()})
        for clause, detail, wit in bad[:1]:
            # state at module level of the code under test (a shared buffer, say) leaks from one case into the
            # next: the witness also says which case of which shard it was, the replay can re-run the cases before it
            res.violation(clause, detail, dict(wit, _shard={'seed': spec['seed'], 'n': n, 'tier': spec['tier']}), mechanism='C14/' + clause)
    return res


def shard_step(n, rng, res, tier):
    if n % 7 == 1:
        bad, case = [], None
        for _ in range(40):
            bad, case = run_interleaved(rng, res)
            if bad:
                break
    elif n % 3:
        bad, case = run_framing(rng, res, tier)
        res.count('streams')
    else:
        bad, case = run_handshake(rng, res, tier)
        res.count('handshake_cases')
    return bad, case


def replay(witness):
    boot.init()
    from .. import world  # pylint: disable=import-outside-toplevel

    world.World(fsm=False).fresh_db()
    res = Result()
    rng = random.Random(0)
    if witness.get('interleaved'):
        bad, _ = run_interleaved(rng, res, case=witness)
    elif 'stream' in witness:
        bad, _ = run_framing(rng, res, 'quick', case=witness)
    else:
        bad, _ = run_handshake(rng, res, 'quick', case=witness)
    if not bad and witness.get('_shard') and not os.environ.get('VF_TEST_NO_CASE_HISTORY'):
        # not reproducible on its own: the same process history (cases 1..n of that shard)
        sh = witness['_shard']
        rng = random.Random(sh['seed'])
        for k in range(1, sh['n'] + 1):
            bad, _ = shard_step(k, rng, Result() if k < sh['n'] else res, sh['tier'])
    for clause, detail, wit in bad[:1]:
        res.violation(clause, detail, witness, mechanism='C14/' + clause)
    res.count('evaluations')
    return res
