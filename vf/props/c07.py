'''C07 - content-addressed store: novelty signal, single copy, no dangling reference'''

import os
import random
import shutil
import subprocess
import sys

from .. import boot
from ..result import Result, h64, keep_going

dbsim = None  # imported after boot.init()

ID = 'C07'
LEVEL = 'fault_enumeration'
NONTRIVIAL = 'nontrivial'
RULE = (
    '(histories) Dataset.update sequences on the real shelve back end with contents drawn from a small pool (so that '
    'identical content recurs across targets, algorithms, runs and value names, also inside one update) plus '
    'never-seen contents, re-updates of the same key, metric updates, close+reopen and db.tools.purge as a '
    'subprocess. After every operation: every file in the store is named md5_sha1 of its own bytes (hashlib, '
    'independent of the md5sum/sha1sum subprocesses); the number of files equals the number of distinct digests '
    'ever stored; every catalogue (prime) entry names an existing file and the name equals the digest of the '
    'pickled value that was stored under that key; each Task.new_values() flag equals "digest absent from the store '
    'just before this value was written" (model kept by the harness, in write order). (crash points) the update of '
    'one state vector is executed in a child process that os._exit()s at the k-th line event inside {db.util.encode, '
    'db.util.move, comms.Worker.do(Func.set), Connector._set_prime, Interface._update, shelve.util.append} '
    '(sys.monitoring); the parent reopens the database through DBI().open() and re-evaluates catalogue->file and '
    'file->digest. quick: a stratified sample of k per update shape; thorough: every k. non-trivial (histories) = '
    'update in which some value repeats stored content and some does not; distinct = hash(history seed, op)'
)
ASSUMPTIONS = [
    'staging area and store on the same file system (the default configuration): shutil.move is a rename',
    'shelve back end only; tables are dbm.dumb files, what survives a kill is whatever the real reopen reads back',
    'a crash is a process kill between two Python lines of the update path (not inside a system call)',
]
FLOORS = {
    'quick': {'updates_checked': 400, 'flags_checked': 1500, 'store_audits': 400, 'crash_points': 32, 'nontrivial': 100},
    'thorough': {'updates_checked': 15000, 'crash_points': 600, 'nontrivial': 4000},
}
BUDGET = {'quick': 24.0, 'thorough': 600.0}
MANIFEST = dict(
    category='fault_enumeration',
    technique='runtime store audit (hashlib digests of every blob, catalogue->file, novelty flags vs a write-order model) after every operation + process-kill injection at every line event of the update path (sys.monitoring in a child, real reopen in the parent)',
    text=(
        'The crash-point quantifier is met by enumeration: the child is killed at each line event of the update path '
        '(all of them in thorough, a stratified sample in quick) and the survivor state is audited through the real '
        'reopen. The history quantifier is sampled with repeating contents so that the novelty signal is exercised both ways.'
    ),
    design='DESIGN.md §2 C07',
    note='Trusted base: hashlib, pickle, dbm.dumb, the harness write-order model. Same-filesystem staging only.',
)
POOL = [
    {'uid': None, 'data': 'known-0'}, {'uid': None, 'data': 'known-1'}, {'uid': None, 'data': [1, 2, 3]},
    {'uid': None, 'data': None}, {'uid': None, 'data': b'\x00\x01bytes'}, {'uid': None, 'data': {'a': 1}},
]


def plan(tier, seed):
    specs = [{'seed': seed * 1000 + i, 'budget': BUDGET[tier], 'mode': 'history'} for i in range(8)]
    # 8 crash shards: update shape = part % 4, odd / even line events = part // 4
    specs += [{'seed': seed * 1000 + 50 + i, 'budget': BUDGET[tier], 'mode': 'crash', 'part': i, 'parts': 8} for i in range(8)]
    return specs


_SIM = []


def get_sim():
    global dbsim  # pylint: disable=global-statement
    if not _SIM:
        from .. import dbsim as _dbsim, world  # pylint: disable=import-outside-toplevel

        dbsim = _dbsim
        _SIM.append(dbsim.DbSim(world.World(fsm=False)))
    return _SIM[0]


def audit_store(sim, res, where, blob_of=None):
    '''file->digest, catalogue->file; returns list of (clause, detail)'''
    bad = []
    dbs = sim.ctx.data_dbs
    files = [f for f in os.listdir(dbs) if os.path.isfile(os.path.join(dbs, f))]
    res.count('store_audits')
    for fn in files:
        res.count('files_hashed')
        d = sim.file_digest(os.path.join(dbs, fn))
        if d != fn:
            bad.append(('file-named-by-digest', f'{where}: store file {fn} holds bytes whose digest is {d}'))
            break
    prime = sim.tables()['prime']
    fset = set(files)
    for key, blob in prime.items():
        res.count('catalogue_entries_checked')
        if blob not in fset:
            bad.append(('no-dangling-reference', f'{where}: catalogue entry {key} names {blob}, which is not in the store'))
            break
    return bad, files, prime


class failing_move:  # pylint: disable=invalid-name
    '''the n-th shutil.move made by dawgie.db.util raises ENOSPC (the global shutil module is left alone)'''

    def __init__(self, n):
        self.n = n

    def __enter__(self):
        import errno  # pylint: disable=import-outside-toplevel
        import dawgie.db.util as u  # pylint: disable=import-outside-toplevel

        self.u, self.orig = u, u.shutil
        calls = [0]
        n = self.n

        class Shim:  # pylint: disable=too-few-public-methods
            def __getattr__(self, name):
                return getattr(shutil, name)

            @staticmethod
            def move(src, dst, *a, **k):
                calls[0] += 1
                if calls[0] == n:
                    raise OSError(errno.ENOSPC, 'No space left on device (injected by vf)')
                return shutil.move(src, dst, *a, **k)

        u.shutil = Shim()
        return self

    def __exit__(self, *exc):
        self.u.shutil = self.orig
        return False


def run_history(sim, hseed, res, thorough=False):
    # pylint: disable=too-many-locals,too-many-branches,too-many-statements
    rng = random.Random(hseed)
    schema = dbsim.Schema(rng, n_algs=rng.choice([2, 3, 4]))
    targets = rng.sample(dbsim.NAMES['target'], 3)
    sim.fresh(targets[:2])
    stored = set()  # digests ever stored
    live = set()  # digests that must still be on disk (purge removes unreferenced ones)
    keyblob = {}  # (run, target, ident) -> digest expected in the prime table
    bad = []
    trace = []
    nops = rng.choice([10, 20, 35]) if not thorough else rng.choice([20, 35, 70])
    for i in range(nops):
        k = rng.random()
        tk, an = rng.choice(schema.keys())
        tg = rng.choice(targets)
        op = None
        try:
            if k < 0.8:
                run = rng.choice([1, 2, 3, 4])
                a = schema.algs[(tk, an)]
                contents = {}
                kinds = set()
                for svn, s in a['svs'].items():
                    for vn in s['vals']:
                        if rng.random() < 0.6:
                            contents[(svn, vn)] = rng.choice(POOL)
                        else:
                            contents[(svn, vn)] = dbsim.payload(rng, sim.next_uid('c07'))
                op = ['update', tk, an, tg, run, [c['data'] if c['uid'] is None else c['uid'] for c in contents.values()]]
                if rng.random() < 0.12:
                    # the file system refuses one move (ENOSPC): the server survives, only this update fails
                    fail_at = rng.randint(1, max(1, len(contents)))
                    op[0] = f'update(move #{fail_at} fails)'
                    try:
                        with failing_move(fail_at):
                            flags, order, _before = sim.update(schema, tk, an, tg, run, contents)
                    except OSError as e:
                        if 'injected' not in str(e):
                            raise
                        res.count('updates_interrupted_by_move_failure')
                        trace.append(op)
                        b2, files, prime = audit_store(sim, res, str(op))
                        bad += b2
                        # what the interrupted update managed to store is stored; the entries it managed to record
                        # are followed from what the catalogue says now (the audit above vouches for them)
                        live = set(files)
                        stored |= live
                        t = sim.tables()
                        for svn, s2 in a['svs'].items():
                            for vn in s2['vals']:
                                q = (run, tg, schema.identity(tk, an, svn, vn))
                                key = prime_key(sim, t, run, tg, q[2])
                                if key is not None and key in prime:
                                    keyblob[q] = prime[key]
                                else:
                                    keyblob.pop(q, None)
                        if bad:
                            break
                        continue
                else:
                    flags, order, _before = sim.update(schema, tk, an, tg, run, contents)
                res.count('updates_checked')
                # write-order model of the novelty signal
                want_flags = []
                on_disk = set(f for f in os.listdir(sim.ctx.data_dbs)) - set()  # after the update
                for svn, vn, val in order:
                    d = sim.digest(val)
                    isnew = d not in live
                    kinds.add(isnew)
                    want_flags.append((f'{run}.{tg}.{tk}.{an}.{svn}.{vn}', isnew))
                    stored.add(d)
                    live.add(d)
                    keyblob[(run, tg, schema.identity(tk, an, svn, vn))] = d
                    if d not in on_disk:
                        bad.append(('stored-under-its-digest', f'{op}: value {svn}.{vn} pickles to digest {d}; no such file in the store after the update'))
                if len(kinds) == 2:
                    res.see('nontrivial', h64([hseed, i]))
                got_flags = [(n, bool(f)) for n, f in flags]
                res.count('flags_checked', len(want_flags))
                if got_flags != want_flags and not bad:
                    diff = [(g, w) for g, w in zip(got_flags, want_flags) if g != w][:2]
                    bad.append(('novelty-flag', f'{op}: new_values() flags differ from "content not in the store before": (got, expected) = {diff}'))
            elif k < 0.88:
                op = ['reopen']
                sim.reopen()
            elif k < 0.94 and live and keyblob:
                # remove one key, then purge: unreferenced blobs may go, referenced ones must stay
                kk = rng.choice(sorted(keyblob, key=repr))
                ident = kk[2]
                op = ['remove+purge', kk[0], kk[1], ident[0], ident[1], ident[3], ident[5]]
                sim.db.remove(kk[0], kk[1], ident[0], ident[1], ident[3], ident[5])
                for q in [q for q in keyblob if q[0] == kk[0] and q[1] == kk[1] and (q[2][0], q[2][1], q[2][3], q[2][5]) == (ident[0], ident[1], ident[3], ident[5])]:
                    del keyblob[q]
                sim.db.close()
                env = dict(os.environ, PYTHONPATH=os.path.join(boot.REPO, 'Python'), DAWGIE_DOCKERIZED_AE_GIT_REVISION='rev0')
                cp = subprocess.run(
                    [sys.executable, '-m', 'dawgie.db.tools.purge', '--context-db-impl', 'shelve', '--context-db-path', sim.ctx.db_path,
                     '--context-db-name', sim.ctx.db_name, '--context-data-dbs', sim.ctx.data_dbs, '--context-data-log', sim.ctx.data_log,
                     '--context-data-stg', sim.ctx.data_stg],
                    env=env, capture_output=True, timeout=120, check=False,
                )
                sim.world.reactor.reset()
                sim.db.open()
                res.count('purges')
                if cp.returncode != 0:
                    # the tool refuses to run on an empty catalogue (exit -1); anything else is unexpected
                    res.count('purge_tool_refused_or_failed')
                    if cp.returncode != 255:
                        bad.append(('purge-tool-runs', f'{op}: purge exited {cp.returncode}: {cp.stderr.decode(errors="replace")[-300:]}'))
                else:
                    live = set(keyblob.values())
            else:
                continue
        except Exception as e:  # pylint: disable=broad-exception-caught
            bad.append(('operation-completes', f'{op} raised {type(e).__name__}: {e}'))
        trace.append(op)
        if not bad:
            b2, files, prime = audit_store(sim, res, str(op))
            bad += b2
            if not bad and op and op[0] == 'update':
                if set(files) != live:
                    extra, miss = sorted(set(files) - live)[:2], sorted(live - set(files))[:2]
                    bad.append(('kept-once', f'{op}: store holds {len(files)} files, {len(live)} distinct contents are referenced/stored; unexpected={extra} missing={miss}'))
            if not bad:
                # every key we wrote points at the digest of what was written
                t = sim.tables()
                tid = t['target']
                for (run, tg2, ident), d in list(keyblob.items())[:40]:
                    res.count('key_to_digest_checked')
                    key = prime_key(sim, t, run, tg2, ident)
                    if key is None or prime.get(key) != d:
                        bad.append(('entry-names-its-content', f'{op}: entry {(run, tg2, ident)} names {prime.get(key) if key else None}, the content stored under it has digest {d}'))
                        break
                del tid
        if bad:
            break
    return bad, {'trace': trace}


def prime_key(sim, t, run, tg, ident):
    from dawgie.db.shelve import util  # pylint: disable=import-outside-toplevel
    from dawgie.db.shelve.util import LocalVersion as LV  # pylint: disable=import-outside-toplevel

    tk, an, av, svn, svv, vn, vv = ident
    try:
        tgid = t['target'][tg]
        tkid = t['task'][tk]
        aid = t['alg'][util.construct(an, tkid, LV(list(av)))]
        sid = t['state'][util.construct(svn, aid, LV(list(svv)))]
        vid = t['value'][util.construct(vn, sid, LV(list(vv)))]
    except KeyError:
        return None
    del sim
    return str((run, tgid, tkid, aid, sid, vid))


# ---------------------------------------------------------------------------
# crash points
def prepare_root(sim, base):
    '''a database that already holds the "known" contents'''
    rng = random.Random(4242)
    schema = dbsim.Schema(rng, n_algs=2)
    tk, an = schema.keys()[0]
    a = schema.algs[(tk, an)]
    sim.fresh(['T'])
    contents = {}
    i = 0
    for svn, s in sorted(a['svs'].items()):
        for vn in sorted(s['vals']):
            contents[(svn, vn)] = {'uid': None, 'data': f'known-{i % 2}'}
            i += 1
    sim.update(schema, tk, an, 'T', 1, contents)
    sim.db.close()
    shutil.copytree(sim.world.root, base, ignore=shutil.ignore_patterns('ae', 'fe'))
    sim.world.reactor.reset()
    sim.db.open()


def run_child(root, k, shape):
    env = dict(os.environ, PYTHONPATH=boot.VERIF, PYTHONHASHSEED='0')
    cp = subprocess.run([sys.executable, '-m', 'vf.crashchild', root, str(k), str(shape)], env=env, capture_output=True, timeout=300, check=False, cwd=boot.VERIF)
    return cp


def audit_root(sim, root, res, where):
    '''reopen the survivor through the real DBI().open() and audit it'''
    ctx = sim.ctx
    saved = (ctx.db_path, ctx.data_dbs, ctx.data_stg, ctx.db_rotate_path)
    sim.db.close()
    ctx.db_path = os.path.join(root, 'db')
    ctx.db_rotate_path = ctx.db_path
    ctx.data_dbs = os.path.join(root, 'dbs')
    ctx.data_stg = os.path.join(root, 'stg')
    bad = []
    try:
        sim.world.reactor.reset()
        sim.db.open()
        b2, files, prime = audit_store(sim, res, where)
        bad += b2
        # catalogue still well formed after the kill
        t, idx = sim.tables(), sim.indices()
        for name in ('alg', 'state', 'target', 'task', 'value'):
            ids = sorted(t[name].values())
            if ids != list(range(len(ids))) or any(idx[name][i] != n for n, i in t[name].items()):
                bad.append(('catalogue-after-crash', f'{where}: table {name} ids={ids[:8]} index={idx[name][:4]}'))
        info = {'files': len(files), 'entries': len(prime)}
    except Exception as e:  # pylint: disable=broad-exception-caught
        bad.append(('reopen-after-crash', f'{where}: reopening the database raised {type(e).__name__}: {e}'))
        info = {}
    finally:
        try:
            sim.db.close()
        except Exception:  # pylint: disable=broad-exception-caught
            pass
        ctx.db_path, ctx.data_dbs, ctx.data_stg, ctx.db_rotate_path = saved
        sim.world.reactor.reset()
        sim.db.open()
    return bad, info


def run_crash(spec, res, sim):
    rng = random.Random(spec['seed'])
    base = os.path.join(boot.scratch('c07crash'), 'base')
    prepare_root(sim, base)
    shape = spec['part'] % 4
    half = spec['part'] // 4
    root = base + f'-count{shape}'
    shutil.copytree(base, root)
    cp = run_child(root, -1, shape)
    shutil.rmtree(root, ignore_errors=True)
    out = cp.stdout.decode(errors='replace')
    if 'LINES' not in out:
        res.inconclusive.append(f'crash child did not complete a clean run: rc={cp.returncode} {cp.stderr.decode(errors="replace")[-400:]}')
        return
    total = {shape: int(out.split('LINES')[1].split()[0])}
    res.extra['line_events_per_update'] = total[shape]
    where = out.split('WHERE')[1].split() if 'WHERE' in out else []
    mine = [(shape, k) for k in range(1, total[shape] + 1) if k % 2 == half]
    if spec['tier'] != 'thorough':
        # every line event close to the file-system step (stage -> store -> catalogue) of each value,
        # plus a stratified sample spread over the rest of the path
        moves = [i + 1 for i, w in enumerate(where) if w.startswith('move:')]
        critical = sorted({k for m in moves for k in range(m - 7, m + 8) if 1 <= k <= total[shape] and k % 2 == half})
        step = max(1, len(mine) // 5)
        crit = [(shape, k) for k in critical]
        # the critical window is always enumerated completely; the spread sample only while time remains
        mine = crit + [p for p in mine[rng.randrange(step) :: step] if p not in set(crit)]
        res.count('critical_window_points', len(critical))
    else:
        crit = []
        res.extra['exhaustive_crash_points'] = True
    n = 0
    for shape, k in mine:
        if spec['tier'] != 'thorough' and res.elapsed() > spec['budget'] * 2.2 and n >= 5 and (shape, k) not in set(crit):
            break
        root = base + f'-s{shape}k{k}'
        shutil.copytree(base, root)
        cp = run_child(root, k, shape)
        n += 1
        res.count('evaluations')
        res.count('crash_points')
        res.see('crash_point_ids', f's{shape}k{k}')
        if cp.returncode == 77:
            res.count('children_killed_at_point')
        elif cp.returncode == 0:
            res.count('children_completed')
        else:
            res.inconclusive.append(f'crash child rc={cp.returncode} at shape {shape} k={k}: {cp.stderr.decode(errors="replace")[-300:]}')
        bad, _info = audit_root(sim, root, res, f'kill at line event {k} of update shape {shape}')
        shutil.rmtree(root, ignore_errors=True)
        if n <= 2:
            res.sample({'mode': 'crash', 'shape': shape, 'k': k, 'of': total[shape], 'child_rc': cp.returncode})
        for clause, detail in bad[:1]:
            res.violation(clause, detail, {'mode': 'crash', 'shape': shape, 'k': k}, mechanism='C07/' + clause)
    res.see('nontrivial', 'crash')
    res.see('nontrivial', 'crash-%d' % spec['part'])


def run_shard(spec):
    boot.init()
    res = Result()
    sim = get_sim()
    if spec['mode'] == 'crash':
        run_crash(spec, res, sim)
        return res
    rng = random.Random(spec['seed'])
    n = 0
    prefix = []
    while keep_going(res, spec) or n < 6:
        hseed = rng.getrandbits(48)
        bad, info = run_history(sim, hseed, res, thorough=spec['tier'] == 'thorough')
        n += 1
        res.count('evaluations')
        res.count('histories')
        if n <= 2:
            res.sample({'mode': 'history', 'history_seed': hseed, 'operations': info['trace'][:12]})
        for clause, detail in bad[:1]:
            # module-level state of the code under test (a cache, say) can leak from one history into the next:
            # the witness names the earlier histories of this process too, the replay runs them first
            res.violation(clause, detail, {'mode': 'history', 'hseed': hseed, 'tier': spec['tier'], 'earlier': list(prefix)}, mechanism='C07/' + clause)
        prefix.append(hseed)
    return res


def replay(witness):
    boot.init()
    res = Result()
    sim = get_sim()
    if witness['mode'] == 'history':
        bad, _ = run_history(sim, witness['hseed'], res, thorough=witness.get('tier') == 'thorough')
        if not bad and witness.get('earlier'):
            # not reproducible on its own: with the histories that preceded it in the shard
            for h in witness['earlier']:
                run_history(sim, h, Result(), thorough=witness.get('tier') == 'thorough')
            bad, _ = run_history(sim, witness['hseed'], res, thorough=witness.get('tier') == 'thorough')
    else:
        base = os.path.join(boot.scratch('c07crash'), 'base')
        prepare_root(sim, base)
        root = base + '-replay'
        shutil.copytree(base, root)
        run_child(root, witness['k'], witness['shape'])
        bad, _ = audit_root(sim, root, res, f'kill at line event {witness["k"]} of update shape {witness["shape"]}')
    for clause, detail in bad[:1]:
        res.violation(clause, detail, witness, mechanism='C07/' + clause)
    res.count('evaluations')
    return res
