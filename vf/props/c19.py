'''C19 - the front end never serves files outside its roots nor commands to strangers'''

import os
import random
import sys

from twisted.internet.address import IPv4Address
from twisted.internet.testing import StringTransport

from .. import boot
from ..result import Result, h64, keep_going

ID = 'C19'
LEVEL = 'exploration'
NONTRIVIAL = 'nontrivial'
RULE = (
    '(static) two site roots in a scratch tree with canary files (unique tokens) OUTSIDE them - sibling directory, '
    'parent directory, absolute path - plus symlinks planted inside the roots that point outside (to a file and to '
    'a directory) and inside. Raw HTTP/1.1 request bytes are fed to the real twisted.web Site(dawgie.fe.root()) '
    'channel on a StringTransport (so the un-normalised request.uri reaches the static service as in production). '
    'Request paths are generated from segments {.., ., empty, real names, %2e%2e, %2f, ..%2f, absolute paths, '
    'symlink names, query strings}. Clause: no response contains a canary token; every file opened during the '
    'request (sys.addaudithook) that lies outside both roots and is not part of the python installation is '
    'reported; files inside the roots (incl. via inside-pointing symlinks) are served byte-identical. (access) '
    'with client certificates configured and no peer certificate, for every DynamicContent resource found by '
    'walking the resource tree x {GET, POST, PUT, DELETE} x {default hook, hook that raises, hook that does not '
    'exist}: the endpoint\'s handler code object is seen executing (sys.setprofile) only for endpoints that are '
    'not run/reset/submit/snapshot commands and only with the default hook; schedule.organize, FSM triggers / '
    'wait_for_*, set_submit_info and snapshot.grab are never reached. Controls: with a peer certificate, or with '
    'no client certificates configured, command handlers do run. non-trivial (static) = path containing an '
    'escaping segment or symlink; distinct = hash(path)'
)
ASSUMPTIONS = [
    'TLS itself is not exercised: "no peer certificate" is a transport without getPeerCertificate / returning None',
    'the static service is reached through the real Site and resource tree; HTTP parsing is twisted\'s',
]
FLOORS = {
    'quick': {'static_requests': 5000, 'nontrivial': 2000, 'access_requests': 500, 'positive_controls': 100, 'endpoints': 40},
    'thorough': {'static_requests': 200000, 'nontrivial': 80000, 'access_requests': 5000},
}
BUDGET = {'quick': 22.0, 'thorough': 420.0}
MANIFEST = dict(
    category='exploration',
    technique='runtime monitor: canary tokens + open() audit hook on raw HTTP requests to the real Site; handler-execution profile hook and mutator tripwires on every registered endpoint x method x access-hook configuration',
    text=(
        'Containment is a for-all over request paths: tens of thousands of generated paths (escaping, encoded, '
        'absolute, symlinked) are sent as raw HTTP to the real resource tree and any canary in a response or any '
        'outside file opened is a violation. The access matrix enumerates every registered endpoint (discovered at '
        'run time, so new endpoints are included) x method x hook configuration exhaustively.'
    ),
    design='DESIGN.md §2 C19',
    note='Trusted base: twisted.web HTTP parsing, the audit/profile hooks of CPython, the harness.',
)
ADDR = IPv4Address('TCP', '10.2.3.4', 46000)
COMMAND_WORDS = ('run', 'reset', 'submit', 'snapshot')


def plan(tier, seed):
    return [{'seed': seed * 1000 + i, 'budget': BUDGET[tier], 'mode': 'access' if i == 0 else 'static'} for i in range(16)]


class Env:
    '''scratch site + real Site factory'''

    # pylint: disable=too-many-instance-attributes
    def __init__(self):
        import dawgie.context as ctx  # pylint: disable=import-outside-toplevel

        self.ctx = ctx
        base = boot.scratch('c19')
        self.base = base
        self.fe = os.path.join(base, 'jail', 'fe')
        self.site = os.path.join(base, 'jail', 'site')
        self.sib = os.path.join(base, 'jail', 'sib')
        for d in (self.fe, self.site, self.sib, os.path.join(self.fe, 'a'), os.path.join(self.site, 'css'), os.path.join(self.fe, 'images', 'svg')):
            os.makedirs(d, exist_ok=True)
        self.canaries = {}

        def put(path, token):
            with open(path, 'wt', encoding='utf-8') as f:
                f.write(f'CANARY-{token}-{os.getpid()}\n')
            self.canaries[path] = f'CANARY-{token}-{os.getpid()}'.encode()

        put(os.path.join(self.sib, 'secret.txt'), 'sibling')
        put(os.path.join(self.sib, 'index.html'), 'sibling-index')
        put(os.path.join(base, 'jail', 'parent_secret.txt'), 'parent')
        put(os.path.join(base, 'abs_secret.txt'), 'absolute')
        put(os.path.join(base, 'jail', 'index.html'), 'parent-index')
        self.inside = {}

        def inside(root, rel, content):
            p = os.path.join(root, rel)
            with open(p, 'wb') as f:
                f.write(content)
            self.inside[p] = content

        inside(self.fe, 'index.html', b'<html>fe index</html>')
        inside(self.fe, 'a/b.txt', b'fe a b \x00\x01 binary')
        inside(self.fe, 'a/index.html', b'<html>fe a index</html>')
        inside(self.site, 'index.html', b'<html>site index</html>')
        inside(self.site, 'css/x.css', b'body{color:red}')
        inside(self.site, 'only_site.js', b'var x=1;')
        # symlinks inside the roots
        os.symlink(self.sib, os.path.join(self.fe, 'link_out'))
        os.symlink(os.path.join(base, 'jail', 'parent_secret.txt'), os.path.join(self.fe, 'link_file'))
        os.symlink(self.sib, os.path.join(self.site, 'link2'))
        os.symlink(os.path.join(self.fe, 'a'), os.path.join(self.fe, 'link_in'))
        os.symlink(os.path.join(base, 'abs_secret.txt'), os.path.join(self.site, 'css', 'theme.css'))
        # a directory inside the root whose index.html is a symlink to the outside
        os.makedirs(os.path.join(self.fe, 'dirlink'))
        os.symlink(os.path.join(base, 'abs_secret.txt'), os.path.join(self.fe, 'dirlink', 'index.html'))
        ctx.fe_path = self.fe
        ctx.site_path = self.site
        import dawgie.fe  # pylint: disable=import-outside-toplevel
        import twisted.web.server  # pylint: disable=import-outside-toplevel

        self.root = dawgie.fe.root()
        self.factory = twisted.web.server.Site(self.root)
        self.factory.doStart()
        self.opened = []
        self.auditing = False
        env = self

        def hook(event, args):
            if env.auditing and event == 'open':
                env.opened.append(args[0])

        sys.addaudithook(hook)

    def request(self, method, target, body=b'', peer_cert=False, headers=()):
        proto = self.factory.buildProtocol(ADDR)
        tr = StringTransport(peerAddress=ADDR)
        if peer_cert:
            tr.getPeerCertificate = lambda: object()
        proto.makeConnection(tr)
        req = method.encode() + b' ' + target + b' HTTP/1.1\r\nHost: fe\r\nConnection: close\r\n'
        for h in headers:
            req += h + b'\r\n'
        if body or method in ('POST', 'PUT'):
            req += b'Content-Type: application/x-www-form-urlencoded\r\nContent-Length: ' + str(len(body)).encode() + b'\r\n'
        req += b'\r\n' + body
        self.opened = []
        self.auditing = True
        try:
            proto.dataReceived(req)
        finally:
            self.auditing = False
        out = tr.value()
        try:
            proto.connectionLost(None)
        except Exception:  # pylint: disable=broad-exception-caught
            pass
        head, _, payload = out.partition(b'\r\n\r\n')
        status = head.split(b'\r\n', 1)[0]
        if b'chunked' in head.lower():
            payload = dechunk(payload)
        return status, head, payload


def dechunk(data):
    out = b''
    while data:
        line, _, rest = data.partition(b'\r\n')
        try:
            n = int(line.split(b';')[0], 16)
        except ValueError:
            return out + data
        if n == 0:
            break
        out += rest[:n]
        data = rest[n + 2:]
    return out


# ---------------------------------------------------------------------------
# static
SEGS_ESC = ['..', '..', '..', '%2e%2e', '..%2f', '%2e%2e%2f', '....', '.%2e', '..;', '..\\']
SEGS_NEUTRAL = ['.', '', 'a', 'css', 'images', 'nosuch', 'index.html', 'b.txt', 'x.css']
SEGS_LINK = ['link_out', 'link_file', 'link2', 'link_in', 'css/theme.css', 'dirlink']
SEGS_TARGET = ['sib', 'secret.txt', 'parent_secret.txt', 'index.html', 'jail', 'fe', 'site', 'abs_secret.txt', 'sib/secret.txt']


def gen_path(rng, env):
    k = rng.random()
    segs = []
    if k < 0.12:
        # absolute path of a canary, with 0..3 leading slashes
        p = rng.choice(list(env.canaries))
        return ('/' * rng.randint(0, 3) + p).encode(), True
    n = rng.randint(1, 7)
    esc = False
    for _ in range(n):
        r = rng.random()
        if r < 0.4:
            segs.append(rng.choice(SEGS_ESC))
            esc = True
        elif r < 0.6:
            segs.append(rng.choice(SEGS_NEUTRAL))
        elif r < 0.75:
            segs.append(rng.choice(SEGS_LINK))
            esc = True
        else:
            segs.append(rng.choice(SEGS_TARGET))
    path = '/' * rng.choice([1, 1, 1, 2, 0]) + '/'.join(segs)
    if rng.random() < 0.1:
        path += '?' + rng.choice(['x=1', '../../sib/secret.txt', 'a=/..'])
    if rng.random() < 0.05:
        path += '/'
    if not path.startswith('/') and not path.startswith('%'):
        path = '/' + path
    return path.encode(), esc


def check_static(env, target, res):
    '''returns (clause, detail) or None'''
    status, _head, payload = env.request('GET', target)
    res.count('static_requests')
    for path, tok in env.canaries.items():
        if tok in payload:
            return ('static-contained', f'GET {target.decode(errors="replace")} returned the content of {os.path.relpath(path, env.base)} (outside both roots); status {status.decode(errors="replace")}')
    roots = (os.path.realpath(env.fe) + os.sep, os.path.realpath(env.site) + os.sep)
    for o in env.opened:
        if not isinstance(o, (str, bytes)):
            continue
        p = os.path.realpath(o if isinstance(o, str) else o.decode(errors='replace'))
        if p.startswith(os.path.realpath(env.base) + os.sep) and not p.startswith(roots):
            res.count('outside_opens')
            return ('static-opens-only-inside', f'GET {target.decode(errors="replace")} opened {os.path.relpath(p, env.base)}, which is outside both roots')
    return None


def positive_controls(env, res):
    bad = []
    for p, content in env.inside.items():
        for root in (env.fe, env.site):
            if p.startswith(root + os.sep):
                rel = os.path.relpath(p, root)
                status, _h, payload = env.request('GET', ('/' + rel).encode())
                res.count('positive_controls')
                # the fe root shadows the site root for equal names
                want = content
                shadow = os.path.join(env.fe, rel)
                if root == env.site and os.path.isfile(shadow):
                    want = env.inside[shadow]
                if payload != want:
                    bad.append(('inside-served-intact', f'GET /{rel} returned {payload[:60]!r} (status {status}), file holds {want[:60]!r}'))
    status, _h, payload = env.request('GET', b'/link_in/b.txt')
    res.count('positive_controls')
    if payload != env.inside[os.path.join(env.fe, 'a/b.txt')]:
        bad.append(('inside-served-intact', f'GET /link_in/b.txt (symlink pointing inside the root) returned {payload[:60]!r}'))
    return bad


def run_static(spec, res, env):
    rng = random.Random(spec['seed'])
    for clause, detail in positive_controls(env, res):
        res.violation(clause, detail, {'mode': 'control'}, mechanism='C19/' + clause)
    fixed = [b'/../sib/secret.txt', b'/../parent_secret.txt', b'/..', b'/../', b'/link_out/secret.txt', b'/link_file', b'/css/theme.css',
             b'/link2/secret.txt', b'/../../abs_secret.txt', b'//' + env.sib.encode() + b'/secret.txt', b'/a/../../sib/secret.txt',
             b'/link_out', b'/link_out/', b'/../sib', b'/../sib/', b'/dirlink', b'/dirlink/', b'/dirlink/index.html', b'/a/../dirlink']
    n = 0
    reported = set()
    while keep_going(res, spec):
        if fixed:
            target, esc = fixed.pop(0), True
        else:
            target, esc = gen_path(rng, env)
        n += 1
        res.count('evaluations')
        bad = check_static(env, target, res)
        if esc:
            res.see('nontrivial', h64(target.decode(errors='replace')))
        if n <= 3:
            res.sample({'mode': 'static', 'request': 'GET ' + target.decode(errors='replace')})
        if bad and bad[0] not in reported:
            reported.add(bad[0])
            res.violation(bad[0], bad[1], {'mode': 'static', 'target': target.decode('latin-1')}, mechanism='C19/' + bad[0])


# ---------------------------------------------------------------------------
# access
def endpoints(root):
    '''walk the resource tree: uri -> DynamicContent'''
    import dawgie.fe.basis as basis  # pylint: disable=import-outside-toplevel

    out = {}

    def walk(node, prefix):
        for name, child in node.children.items():
            uri = prefix + '/' + name.decode()
            if isinstance(child, basis.DynamicContent):
                out[uri] = child
            if getattr(child, 'children', None):
                walk(child, uri)

    walk(root, '')
    return out


def handler_code(dc):
    fnc = getattr(dc, '_DynamicContent__fnc')
    if hasattr(fnc, '__code__'):
        return fnc.__code__
    return type(fnc).__call__.__code__


class Tripwires:
    '''mutating entry points: record, do not execute'''

    def __init__(self):
        import dawgie.pl.schedule as sch  # pylint: disable=import-outside-toplevel
        import dawgie.pl.snapshot as snap  # pylint: disable=import-outside-toplevel
        import dawgie.pl.state as state  # pylint: disable=import-outside-toplevel

        self.hits = []
        self.saved = []

        def trip(obj, name):
            orig = getattr(obj, name)
            self.saved.append((obj, name, orig))

            def wire(*_a, **_k):
                self.hits.append(f'{getattr(obj, "__name__", obj)}.{name}')
                return None

            setattr(obj, name, wire)

        trip(sch, 'organize')
        trip(snap, 'grab')
        for n in dir(state.FSM):
            if n.endswith('_trigger') or n.startswith('wait_for_') or n == 'set_submit_info':
                trip(state.FSM, n)
        # triggers are added per instance by transitions.Machine
        import dawgie.context as ctx  # pylint: disable=import-outside-toplevel

        fsm = getattr(ctx, 'fsm', None)
        if fsm is not None:
            for n in dir(fsm):
                if n.endswith('_trigger'):
                    trip(fsm, n)

    def restore(self):
        for obj, name, orig in reversed(self.saved):
            try:
                setattr(obj, name, orig)
            except (AttributeError, TypeError):
                pass


def hook_raises(_endpoint, _cert):
    raise RuntimeError('access hook failure injected by vf')


def run_access(spec, res, env):
    # pylint: disable=too-many-locals,too-many-branches,too-many-statements
    import dawgie.context as ctx  # pylint: disable=import-outside-toplevel
    import dawgie.security as sec  # pylint: disable=import-outside-toplevel

    eps = endpoints(env.root)
    res.count('endpoints', len(eps))
    res.extra['endpoints_found'] = sorted(eps)
    codes = {handler_code(dc): uri for uri, dc in eps.items()}
    ran = []

    class HandlerStarted(Exception):
        '''raised inside a command handler's frame: seeing it start is all the monitor needs'''

    def prof(frame, event, _arg):
        if event == 'call' and frame.f_code in codes:
            uri = codes[frame.f_code]
            ran.append(uri)
            if uri.split('/')[-1] in COMMAND_WORDS:
                raise HandlerStarted(uri)

    default_hook = ctx.sanction_override
    saved_certs = list(sec._certs)  # pylint: disable=protected-access
    trip = Tripwires()
    bodies = {'POST': b'runnables=tk.alg&targets=T0&archive=false&changeset=abc&priority=0&submission=now', 'PUT': b'x=1'}
    try:
        configs = [
            ('default-hook', default_hook, True, False),
            ('hook-raises', 'vf.props.c19.hook_raises', True, False),
            ('hook-missing', 'vf.props.c19.no_such_function', True, False),
            ('hook-module-missing', 'no.such.module.fn', True, False),
            ('control-with-certificate', default_hook, True, True),
            ('control-no-client-certs-configured', default_hook, False, False),
        ]
        rounds = 0
        while rounds < 1 or (res.elapsed() < spec['budget'] and rounds < 3):
            rounds += 1
            for cname, hook, certs, peer in configs:
                ctx.sanction_override = hook
                sec._certs[:] = ['a-client-certificate'] if certs else []  # pylint: disable=protected-access
                for uri, dc in sorted(eps.items()):
                    is_cmd = uri.split('/')[-1] in COMMAND_WORDS
                    for method in ('GET', 'POST', 'PUT', 'DELETE'):
                        del ran[:]
                        del trip.hits[:]
                        target = uri.encode() + (b'?runnables=tk.alg&targets=T0&node_name=tk.alg' if method in ('GET', 'DELETE') else b'')
                        sys.setprofile(prof)
                        try:
                            status, _h, payload = env.request(method, target, body=bodies.get(method, b''), peer_cert=peer)
                        finally:
                            sys.setprofile(None)
                        res.count('access_requests')
                        res.count('access_' + cname)
                        handler_ran = uri in ran
                        wit = {'mode': 'access', 'config': cname, 'uri': uri, 'method': method}
                        if cname.startswith('control'):
                            if is_cmd and handler_ran:
                                res.count('control_command_handlers_ran')
                            continue
                        res.see('nontrivial', h64([cname, uri, method]))
                        if cname != 'default-hook' and handler_ran:
                            res.violation('hook-error-denies', f'{method} {uri} with access hook "{hook}" (which fails): the handler ran', wit, mechanism='C19/hook-error-denies')
                        elif is_cmd and handler_ran:
                            res.violation('commands-need-certificate', f'anonymous {method} {uri} (client certificates configured): the command handler ran', wit, mechanism='C19/commands-need-certificate')
                        if trip.hits:
                            res.violation('no-mutation-by-strangers', f'anonymous {method} {uri} [{cname}] reached {sorted(set(trip.hits))}', wit, mechanism='C19/no-mutation-by-strangers')
                        if handler_ran and not is_cmd:
                            res.count('public_handlers_ran')
                        if is_cmd:
                            res.count('command_requests_denied' if not handler_ran else 'command_requests_ran')
            res.count('evaluations')
        if not res.counters.get('control_command_handlers_ran'):
            res.inconclusive.append('control failed: command handlers never ran even with a certificate (profile hook blind?)')
        res.sample({'mode': 'access', 'endpoints': len(eps), 'commands': sorted(u for u in eps if u.split('/')[-1] in COMMAND_WORDS)})
    finally:
        sys.setprofile(None)
        trip.restore()
        ctx.sanction_override = default_hook
        sec._certs[:] = saved_certs  # pylint: disable=protected-access


_ENV = []


def get_env():
    if not _ENV:
        from .. import world  # pylint: disable=import-outside-toplevel

        w = world.World()
        w.fresh_db(['T0'])
        _ENV.append(Env())
    return _ENV[0]


def run_shard(spec):
    boot.init()
    res = Result()
    env = get_env()
    if spec['mode'] == 'access':
        run_access(spec, res, env)
    else:
        run_static(spec, res, env)
    return res


def replay(witness):
    boot.init()
    res = Result()
    env = get_env()
    if witness['mode'] == 'static':
        bad = check_static(env, witness['target'].encode('latin-1'), res)
        if bad:
            res.violation(bad[0], bad[1], witness, mechanism='C19/' + bad[0])
    elif witness['mode'] == 'control':
        for clause, detail in positive_controls(env, res):
            res.violation(clause, detail, witness, mechanism='C19/' + clause)
    else:
        run_access({'seed': 0, 'budget': 0}, res, env)
    res.count('evaluations')
    return res
