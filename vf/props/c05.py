'''C05 - a failed run is contained to its own target and its dependents'''

from .. import boot, simfarm, simprops

ID = 'C05'
LEVEL = 'exploration'
NONTRIVIAL = 'nontrivial'
RULE = (
    'C01 histories with 30-60% failure/invalid outcomes. Around every non-success Hand._res the (todo, doing, '
    'do) sets of every node are snapshotted before and after and compared with the frame computed from the '
    'reference graph: T leaves the todo of every reference descendant of X; every membership of another '
    'target, and everything on nodes that are neither X nor descendants, is identical; nothing is added '
    'anywhere; schedule.organize/update are not called; exactly one journal entry (X, T, run, failure|invalid) '
    'appears. non-trivial = failure that arrived while a descendant had T pending and an unrelated node or '
    'another target had work; distinct = hash(engine shape, events)'
)
ASSUMPTIONS = [
    "what happens to T in the *executing* set of a dependent, and to X's own re-request of T made while it "
    'was executing, is not stated by the property and is not judged (observed counts are reported)',
    'workers answer every task; life-cycle stays in running',
]
FLOORS = {
    'quick': {'evaluations': 300, 'failures_checked': 1500, 'nontrivial': 150, 'withdrawals_observed': 300},
    'thorough': {'evaluations': 5000, 'failures_checked': 30000, 'nontrivial': 3000},
}
BUDGET = {'quick': 25.0, 'thorough': 600.0}


class C05Monitor(simfarm.Monitor):
    # pylint: disable=too-many-instance-attributes
    def __init__(self):
        self.checked = 0
        self.withdrawn = 0
        self.self_pending_dropped = 0
        self.executing_dependents_wiped = 0
        self.nontrivial = 0
        self.s0 = None
        self.job_in_que = False

    def before_res(self, sim, msg):
        self.s0 = None
        if msg.success is True:
            return
        self.s0 = sim.snapshot()
        self.job_in_que = any(j.tag == msg.jobid for j in sim.sch.que)
        self.que0 = {j.tag for j in sim.sch.que}
        self.org0 = sum(1 for ln in sim.log if ln[0] in ('organize', 'updates'))
        self.ch0 = len(sim.chron_appended)

    def after_res(self, sim, msg):
        # pylint: disable=too-many-locals,too-many-branches
        if self.s0 is None:
            return
        s0, s1 = self.s0, sim.snapshot()
        self.s0 = None
        x = msg.jobid
        t = msg.incarnation if msg.incarnation else '__all__'
        rel = getattr(sim, 'cur_rel', None)
        if rel is None or rel.key() != (x, t) or rel.state != 'applied':
            # the reply was not applied at all.  When its node had already left the queue that
            # is C03's recorded finding (purge-forgets-executing-descendant); a failure that is
            # ignored although its node is queued is neither recorded nor contained
            mine = [r for r in sim.releases if r.key() == (x, t) and r.state == 'replied' and r.epoch == sim.epoch]
            if self.job_in_que and mine:
                sim.violation(
                    'history-recorded',
                    f'{x}[{t}] {msg_status(msg)} reply was ignored: nothing recorded in the execution history, '
                    'nothing withdrawn from its dependents',
                )
            return
        self.checked += 1
        desc = sim.ref.desc.get(x, set())
        names = ('todo', 'doing', 'do')
        pend_desc = [d for d in desc if t in s0[d][0]]
        others_busy = any(
            (n not in desc and n != x and (s0[n][0] or s0[n][1])) or (s0[n][0] - {t}) or (s0[n][1] - {t})
            for n in s0
        )
        if pend_desc and others_busy:
            self.nontrivial += 1
        for n in sorted(s1):
            for i, nm in enumerate(names):
                b, a = s0[n][i], s1[n][i]
                if a - b:
                    sim.violation('no-new-work', f'{x}[{t}] {msg_status(msg)}: {n}.{nm} gained {sorted(a - b)}')
                    return
                lost = b - a
                if n == x:
                    if lost - {t}:
                        sim.violation('other-target', f'{x}[{t}] failed: its own {nm} lost {sorted(lost - {t})}')
                        return
                    if nm == 'doing' and t in a:
                        sim.violation('failed-unit-still-executing', f'{x}[{t}] still in doing after its failure')
                        return
                    if nm == 'todo' and t in lost:
                        self.self_pending_dropped += 1
                elif n in desc:
                    if lost - {t}:
                        sim.violation('other-target', f'{x}[{t}] failed: dependent {n}.{nm} lost {sorted(lost - {t})}')
                        return
                    if nm == 'todo':
                        if t in a:
                            sim.violation('descendant-withdrawn', f'{x}[{t}] failed: dependent {n} still has {t} pending')
                            return
                        if t in lost:
                            self.withdrawn += 1
                    elif t in lost:
                        self.executing_dependents_wiped += 1
                elif lost:
                    sim.violation(
                        'unrelated-algorithm',
                        f'{x}[{t}] failed: {n} does not depend on it but its {nm} lost {sorted(lost)}',
                    )
                    return
        # pending / executing work that is unchanged must also stay tracked: a node that still has
        # targets pending or executing may not drop out of the work queue (its replies would be lost)
        que1 = {j.tag for j in sim.sch.que}
        for n in sorted(s1):
            if n in self.que0 and n not in que1 and (s1[n][0] or s1[n][1]):
                sim.violation(
                    'remaining-work-stays-queued',
                    f'{x}[{t}] {msg_status(msg)}: {n} left the work queue although it still has pending={sorted(s1[n][0])} executing={sorted(s1[n][1])}',
                )
                return
        org = sum(1 for ln in sim.log if ln[0] in ('organize', 'updates')) - self.org0
        if org:
            sim.violation('no-dependent-triggered', f'{x}[{t}] {msg_status(msg)}: organize/update called {org}x')
            return
        new = sim.chron_appended[self.ch0 :]
        want = (x, t, msg.runid, msg_status(msg))
        if new != [want]:
            sim.violation('history-recorded', f'expected one journal entry {want}, appended {new}')

    def finish(self, sim, res, shape):
        from ..result import h64  # pylint: disable=import-outside-toplevel

        res.count('failures_checked', self.checked)
        res.count('withdrawals_observed', self.withdrawn)
        res.count('obs_self_pending_dropped', self.self_pending_dropped)
        res.count('obs_executing_dependents_wiped', self.executing_dependents_wiped)
        res.count('nontrivial_failures', self.nontrivial)
        if self.nontrivial:
            res.see('nontrivial', h64([shape, sim.events]))
        # journal files hold what was appended
        fails = [e for e in sim.chron_appended if e[3] in ('failure', 'invalid')]
        files = [e for e in sim.chronicle_entries() if e['status'] in ('failure', 'invalid')]
        if sorted(fails) != sorted((e['task'], e['target'], e['runid'], e['status']) for e in files):
            sim.violation('history-recorded', f'{len(fails)} failures appended, journal files hold {len(files)}')
        res.count('journal_failure_entries', len(files))


def msg_status(msg):
    return 'invalid' if msg.success is None else ('success' if msg.success else 'failure')


def make_monitors():
    return [C05Monitor()]


def classify(clause, detail, sim):
    return 'C05/' + clause


def profile(rng):
    p = {k: (dict(v) if isinstance(v, dict) else v) for k, v in simfarm.DEFAULT_PROFILE.items()}
    tot = rng.choice([0.3, 0.45, 0.6])
    p['p_fail'] = tot * 0.55
    p['p_invalid'] = tot * 0.45
    p['weights']['run'] = 2.0
    return p


OPTS = {'profile': profile, 'lengths': [30, 60, 100, 150], 'ntargets': [1, 2, 2, 3, 5]}


def plan(tier, seed):
    return [{'seed': seed * 1000 + 500 + i, 'budget': BUDGET[tier]} for i in range(16)]


def run_shard(spec):
    boot.init()
    opts = dict(OPTS)
    if spec['tier'] == 'thorough':
        opts['sizes'] = [3, 4, 5, 6, 8, 10, 12, 16, 20]
        opts['lengths'] = [60, 100, 200, 400]
    return simprops.shard_loop(spec, ID, make_monitors, classify, opts)


def replay(witness):
    boot.init()
    return simprops.replay_witness(witness, make_monitors, ID, classify)
