'''C08 - catalogue integrity and exact addressing'''

import random

from .. import boot
from ..result import Result, h64, keep_going

dbsim = None  # imported after boot.init()

ID = 'C08'
LEVEL = 'exploration'
NONTRIVIAL = 'nontrivial'
RULE = (
    'histories on the real shelve back end over deliberately colliding names (alg / alg2 / alg_x / a / ab / al; sv / '
    'sv1 / s; v / val / v1 / v10 / va; targets T / T1 / T10) with several versions per name: Dataset.update from '
    'worker context, pl.version.record-style db.update from foreman context, db.add, version bumps, runs written '
    'out of order (a late job of an older run after a newer run), db.remove, db.reset, db.trace, close+reopen. '
    'After every operation: in each of the five name tables the ids are exactly 0..n-1 and '
    'index[table[name]] == name; every primary key resolves value -> state vector -> algorithm -> task through the '
    'parent recorded in each name and names the target/task that wrote it; db.next() is strictly greater than every '
    'stored run id; across close+reopen tables and indices are identical. shelve.util.append carries a '
    'postcondition (new name => id == previous length, index and table agree; known name => same id, nothing '
    'grows). remove / reset / trace are compared with a reference model that addresses by exact names: the set of '
    'primary entries removed, the algorithm and state-vector versions installed by reset, the run reported by '
    'trace. non-trivial = name-addressed operation on a name that is a strict prefix of another registered name; '
    'distinct = hash(history seed, op index)'
)
ASSUMPTIONS = [
    'shelve back end only (no PostgreSQL server in the sandbox)',
    'names do not contain the store\'s own separators (___version:, :parent___, .)',
]
FLOORS = {
    'quick': {'histories': 60, 'integrity_audits': 1200, 'append_postconditions': 4000, 'named_ops_checked': 120, 'nontrivial': 40},
    'thorough': {'histories': 3000, 'integrity_audits': 60000, 'nontrivial': 2500},
}
BUDGET = {'quick': 24.0, 'thorough': 600.0}
MANIFEST = dict(
    category='exploration',
    technique='runtime structural-invariant audit of DBI tables/indices after every operation and across reopen, postcondition on shelve.util.append, reference model (exact names) for remove/reset/trace',
    text=(
        'Catalogue integrity is an invariant over histories: it is audited after every operation of hundreds of '
        'generated histories whose names are chosen to collide as prefixes and whose runs arrive out of order, and '
        'again after every close+reopen.'
    ),
    design='DESIGN.md §2 C08',
    note='Trusted base: dbm.dumb, the harness model. A plain wrapper (not icontract) implements the append postcondition so that it also runs when the wheel is absent.',
)


def plan(tier, seed):
    return [{'seed': seed * 1000 + i, 'budget': BUDGET[tier]} for i in range(16)]


_SIM = []
_APP = {'n': 0, 'bad': []}


def get_sim():
    global dbsim  # pylint: disable=global-statement
    if not _SIM:
        from .. import dbsim as _dbsim, world  # pylint: disable=import-outside-toplevel

        dbsim = _dbsim
        _SIM.append(dbsim.DbSim(world.World(fsm=False)))
        install_append_contract()
    return _SIM[0]


def install_append_contract():
    import dawgie.db.shelve.util as util  # pylint: disable=import-outside-toplevel

    orig = util.append

    def append(name, table, index, parent=None, ver=None):
        full = util.construct(name, parent, ver)
        n0 = len(index)
        known = full in table
        id0 = table[full] if known else None
        t0 = len(table)
        result = orig(name, table, index, parent, ver)
        _APP['n'] += 1
        _exists, idx, rname = result
        ok = rname == full and table.get(full) == idx and 0 <= idx < len(index) and index[idx] == full
        if known:
            ok = ok and idx == id0 and len(index) == n0 and len(table) == t0
        else:
            ok = ok and idx == n0 and len(index) == n0 + 1 and len(table) == t0 + 1
        if not ok:
            _APP['bad'].append(f'append({full!r}): known={known} returned {result}, index length {n0}->{len(index)}, table length {t0}->{len(table)}')
        return result

    util.append = append


def audit(sim, res, where, writers):
    '''structural invariants; returns list of (clause, detail)'''
    # pylint: disable=too-many-locals,too-many-branches
    from dawgie.db.shelve import util  # pylint: disable=import-outside-toplevel

    bad = []
    t, idx = sim.tables(), sim.indices()
    res.count('integrity_audits')
    for name in ('alg', 'state', 'target', 'task', 'value'):
        ids = sorted(t[name].values())
        if ids != list(range(len(ids))):
            bad.append(('ids-gap-free', f'{where}: table {name} has ids {ids[:12]} for {len(ids)} names'))
            continue
        if len(idx[name]) != len(ids):
            bad.append(('name-id-one-to-one', f'{where}: table {name} has {len(ids)} names, its index {len(idx[name])}'))
            continue
        for n, i in t[name].items():
            if idx[name][i] != n:
                bad.append(('name-id-one-to-one', f'{where}: {name}[{n!r}] = {i} but index[{i}] = {idx[name][i]!r}'))
                break
    if bad:
        return bad
    runs = []
    for key in t['prime']:
        res.count('primary_keys_resolved')
        run, tgid, tkid, aid, sid, vid = eval(key)  # pylint: disable=eval-used
        runs.append(run)
        try:
            vpar, vn, _vv = util.dissect(idx['value'][vid])
            spar, svn, _sv = util.dissect(idx['state'][sid])
            apar, an, _av = util.dissect(idx['alg'][aid])
            tkn = idx['task'][tkid]
            tgn = idx['target'][tgid]
        except (IndexError, TypeError) as e:
            bad.append(('entry-resolves', f'{where}: primary key {key} does not resolve: {type(e).__name__} {e}'))
            break
        if vpar != sid or spar != aid or apar != tkid:
            bad.append(('entry-resolves', f'{where}: primary key {key}: value {vn!r} has parent {vpar} (state id {sid}), state {svn!r} has parent {spar} (alg id {aid}), alg {an!r} has parent {apar} (task id {tkid})'))
            break
        w = writers.get(key)
        if w is not None and w != (run, tgn, tkn, an, svn, vn):
            bad.append(('entry-resolves', f'{where}: primary key {key} was written for {w} but resolves to {(run, tgn, tkn, an, svn, vn)}'))
            break
    nxt = sim.db.next()
    res.count('next_run_id_checks')
    if runs and nxt <= max(runs):
        bad.append(('next-run-id', f'{where}: db.next() = {nxt} but run {max(runs)} is stored'))
    if _APP['bad']:
        bad.append(('append-postcondition', _APP['bad'][0]))
        del _APP['bad'][:]
    return bad


def has_prefix_sibling(sim, table, name):
    from dawgie.db.shelve import util  # pylint: disable=import-outside-toplevel

    names = {util.dissect(n)[1] for n in sim.tables()[table]}
    return any(o != name and o.startswith(name) for o in names)


def run_history(sim, hseed, res, thorough=False):
    # pylint: disable=too-many-locals,too-many-branches,too-many-statements
    rng = random.Random(hseed)
    # wide histories: 11+ algorithms, few runs and many writes, so that catalogue ids reach two digits (id 1 is a
    # decimal prefix of ids 10..19) while the entries share run and target (seed C08-5 was missed without them)
    wide = rng.random() < 0.3
    schema = dbsim.Schema(rng, n_algs=rng.choice([3, 4, 5, 6]) if not wide else rng.choice([12, 14, 16]), wide=wide)
    targets = rng.sample(['T', 'T1', 'T10', 'Tx'], 3)
    sim.fresh(targets[:2])
    writers = {}
    bad = []
    trace = []
    nops = rng.choice([12, 20, 35]) if not thorough else rng.choice([20, 35, 70])
    if wide:
        nops = rng.choice([50, 70])
        res.count('wide_histories')
    import dawgie.pl.version  # pylint: disable=import-outside-toplevel

    for i in range(nops):
        k = rng.random()
        tk, an = rng.choice(schema.keys())
        tg = rng.choice(targets)
        op = None
        try:
            if k < 0.45 or not sim.model:
                run = rng.choice([1, 2, 3, 4, 5, 9, 10, 11, 12, 40, 99, 100, 101, 1000])  # widths differ: keys are strings
                if wide:
                    run = rng.choice([2, 2, 2, 10, 11])
                a = schema.algs[(tk, an)]
                contents = {(svn, vn): dbsim.payload(rng, sim.next_uid('c08')) for svn, s in a['svs'].items() for vn in s['vals']}
                op = ['update', tk, an, tg, run]
                before = set(sim.tables()['prime'])
                sim.update(schema, tk, an, tg, run, contents)
                for key in set(sim.tables()['prime']) - before:
                    writers[key] = None  # resolved below
                # who wrote what: re-derive the keys of this update from the tables
                t = sim.tables()
                from ..props import c07  # pylint: disable=import-outside-toplevel

                for svn, s in a['svs'].items():
                    for vn in s['vals']:
                        key = c07.prime_key(sim, t, run, tg, schema.identity(tk, an, svn, vn))
                        if key is not None:
                            writers[key] = (run, tg, tk, an, svn, vn)
                res.count('updates')
            elif k < 0.53:
                # foreman-context registration of versions (what pl.version.record does)
                op = ['record', tk, an]
                alg = sim.build_alg(schema, tk, an)
                bot = sim.Bot(tk, 0, '__none__', [alg])
                dawgie.pl.version.record(bot, only=an)
                res.count('records')
            elif k < 0.63:
                op = ['bump'] + schema.bump(rng)
            elif k < 0.75 and sim.model:
                kk = rng.choice(sorted(sim.model, key=repr))
                ident = kk[2]
                tk2, an2, svn, vn = ident[0], ident[1], ident[3], ident[5]
                op = ['remove', kk[0], kk[1], tk2, an2, svn, vn]
                nt = has_prefix_sibling(sim, 'alg', an2) or has_prefix_sibling(sim, 'state', svn) or has_prefix_sibling(sim, 'value', vn)
                before = dict(sim.tables()['prime'])
                want_gone = {key for key, w in writers.items() if w and (w[0], w[1], w[2], w[3], w[4], w[5]) == (kk[0], kk[1], tk2, an2, svn, vn) and key in before}
                sim.remove(kk[0], kk[1], tk2, an2, svn, vn)
                after = set(sim.tables()['prime'])
                gone = set(before) - after
                res.count('named_ops_checked')
                if nt:
                    res.see('nontrivial', h64([hseed, i]))
                if gone != want_gone:
                    extra = [writers.get(x) for x in sorted(gone - want_gone)][:2]
                    miss = [writers.get(x) for x in sorted(want_gone - gone)][:2]
                    bad.append(('remove-exact', f'{op}: removed entries of {extra} as well / kept {miss}'))
                for key in gone:
                    writers.pop(key, None)
            elif k < 0.83 and sim.model:
                kk = rng.choice(sorted(sim.model, key=repr))
                ident = kk[2]
                tk2, an2 = ident[0], ident[1]
                op = ['reset', kk[0], kk[1], tk2, an2]
                # versions the model holds for exactly this (run, target, task, alg name)
                vers = {q[2][2] for q in sim.model if q[0] == kk[0] and q[1] == kk[1] and q[2][0] == tk2 and q[2][1] == an2}
                if len(vers) == 1 and (tk2, an2) in schema.algs:
                    alg = sim.build_alg(schema, tk2, an2)
                    alg._version_ = sim.dawgie.VERSION(9, 9, 9)  # pylint: disable=protected-access
                    sim.db.reset(kk[0], kk[1], tk2, alg)
                    res.count('named_ops_checked')
                    if has_prefix_sibling(sim, 'alg', an2):
                        res.see('nontrivial', h64([hseed, i]))
                    got = (alg.design(), alg.implementation(), alg.bugfix())
                    if got != tuple(vers)[0]:
                        bad.append(('reset-exact', f'{op}: installed algorithm version {got}, run {kk[0]} of {tk2}.{an2} on {kk[1]} was stored with {tuple(vers)[0]}'))
                    else:
                        svv = {}
                        for q in sim.model:
                            if q[0] == kk[0] and q[1] == kk[1] and q[2][0] == tk2 and q[2][1] == an2:
                                svv.setdefault(q[2][3], set()).add(q[2][4])
                        for sv in alg.state_vectors():
                            w = svv.get(sv.name())
                            if w and len(w) == 1:
                                g = (sv.design(), sv.implementation(), sv.bugfix())
                                if g != tuple(w)[0]:
                                    bad.append(('reset-exact', f'{op}: state vector {sv.name()} version {g}, stored {tuple(w)[0]}'))
            elif k < 0.9 and sim.model:
                tans = sorted({f'{q[2][0]}.{q[2][1]}' for q in sim.model})
                tan = rng.choice(tans)
                op = ['trace', tan]
                got = sim.db.trace([tan])
                res.count('named_ops_checked')
                tk2, an2 = tan.split('.')
                if has_prefix_sibling(sim, 'alg', an2):
                    res.see('nontrivial', h64([hseed, i]))
                # latest registered version of exactly this algorithm name
                from dawgie.db.shelve import util  # pylint: disable=import-outside-toplevel

                t = sim.tables()
                tkid = t['task'][tk2]
                cands = [util.dissect(n) for n in t['alg'] if util.dissect(n)[0] == tkid and util.dissect(n)[1] == an2]
                latest = max((c[2].design(), c[2].implementation(), c[2].bugfix()) for c in cands)
                for tn in sim.db.targets():
                    runs = [q[0] for q in sim.model if q[1] == tn and q[2][0] == tk2 and q[2][1] == an2 and q[2][2] == latest]
                    want = max(runs) if runs else None
                    if want is None:
                        runs = [q[0] for q in sim.model if q[1] == '__all__' and q[2][0] == tk2 and q[2][1] == an2 and q[2][2] == latest]
                        want = max(runs) if runs else None
                    g = got.get(tn, {}).get(tan)
                    if g != want:
                        bad.append(('trace-exact', f'{op}: target {tn}: reported run {g}, latest run of {tan} version {latest} is {want}'))
                        break
            elif k < 0.94:
                op = ['add-target', tg]
                sim.add_target(tg)
            else:
                op = ['reopen']
                t0, i0 = sim.tables(), sim.indices()
                sim.reopen()
                t1, i1 = sim.tables(), sim.indices()
                res.count('reopens')
                # the id->name index only exists for the five name tables (the primary table has no ids)
                diff = [n for n in t0 if t0[n] != t1[n] or (n != 'prime' and i0[n] != i1[n])]
                if diff:
                    bad.append(('survives-reopen', f'{op}: tables {diff} differ after close+reopen'))
        except Exception as e:  # pylint: disable=broad-exception-caught
            bad.append(('operation-completes', f'{op} raised {type(e).__name__}: {e}'))
        trace.append(op)
        if not bad:
            bad += audit(sim, res, str(op), writers)
        if bad:
            break
    res.count('append_postconditions', _APP['n'])
    _APP['n'] = 0
    return bad, {'trace': trace}


def run_shard(spec):
    boot.init()
    res = Result()
    sim = get_sim()
    rng = random.Random(spec['seed'])
    n = 0
    while keep_going(res, spec) or n < 6:
        hseed = rng.getrandbits(48)
        bad, info = run_history(sim, hseed, res, thorough=spec['tier'] == 'thorough')
        n += 1
        res.count('evaluations')
        res.count('histories')
        if n <= 2:
            res.sample({'history_seed': hseed, 'operations': info['trace'][:20]})
        for clause, detail in bad[:1]:
            res.violation(clause, detail, {'hseed': hseed, 'tier': spec['tier']}, mechanism='C08/' + clause)
    return res


def replay(witness):
    boot.init()
    res = Result()
    sim = get_sim()
    bad, _ = run_history(sim, witness['hseed'], res, thorough=witness.get('tier') == 'thorough')
    for clause, detail in bad[:1]:
        res.violation(clause, detail, witness, mechanism='C08/' + clause)
    res.count('evaluations')
    return res
