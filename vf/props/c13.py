'''C13 - the database lock is exclusive, survives client crashes, is eventually granted'''

import pickle
import random
import struct

from twisted.internet.address import IPv4Address
from twisted.internet.testing import StringTransport

from .. import boot, netsim
from ..result import Result, h64, keep_going

ID = 'C13'
LEVEL = 'fault_enumeration'
NONTRIVIAL = 'nontrivial'
RULE = (
    'N (1-8) raw protocol clients on in-memory transports against real shelve.comms.Worker protocols sharing '
    'context.db_lock, on the virtual reactor (0.25 s steps). A script is a sequence of: acquire (frame whole or '
    'split), poll ticks, client reads, release (by holder or by a client that holds nothing), disconnect. For '
    'every base script a disconnect of every client is injected at EVERY position (fault enumeration; scripts '
    'with <= 3 clients exhaustively, larger ones sampled). After every step: at most one client has been told '
    '"unlock" without having released or disconnected; that client\'s connection owns the lock bit; the lock bit '
    'is set iff a live connection owns it; a disconnected client is never granted afterwards; the lock is never '
    'continuously free for more than one poll period (3 s) while a connected client has been waiting that long; '
    'draining (every grantee releases) serves every waiter within #waiters+1 periods. The real blocking client '
    'functions comms.acquire/release are driven over the in-memory socket too. non-trivial = script in which a '
    'holder or waiter disconnected while another client was waiting; distinct = hash(script)'
)
ASSUMPTIONS = [
    'eventual grant is decided in its bounded form (one poll period of virtual time), never by wall clock',
    'the TCP/TLS layer is replaced by StringTransport; loseConnection by the server is followed by connectionLost as the real reactor does',
]
FLOORS = {
    'quick': {'scripts': 2000, 'steps_checked': 40000, 'faults_injected': 1500, 'nontrivial': 500, 'grants_observed': 2000},
    'thorough': {'scripts': 60000, 'faults_injected': 40000, 'nontrivial': 10000},
}
BUDGET = {'quick': 22.0, 'thorough': 420.0}
MANIFEST = dict(
    category='fault_enumeration',
    technique='runtime monitor of a belief ledger (what each client was told) against context.db_lock / per-connection ownership after every protocol step, with a disconnect injected at every step position; bounded-liveness clock on the virtual reactor',
    text=(
        'Interleavings of the lock protocol are reactor-callback orders, which the harness produces exactly. For each '
        'base script a client crash is enumerated at every position (every protocol step of every client), so the '
        '"disconnect at every step" quantifier is met by enumeration for the scripts explored; scripts themselves are sampled.'
    ),
    design='DESIGN.md §2 C13',
    note='Trusted base: CPython, Twisted LoopingCall/Clock, the harness. Liveness only in bounded form.',
)
STEP = 0.25
PERIOD = 3.0


def plan(tier, seed):
    return [{'seed': seed * 1000 + i, 'budget': BUDGET[tier]} for i in range(16)]


def frame(obj):
    b = pickle.dumps(obj, pickle.HIGHEST_PROTOCOL)
    return struct.pack('>I', len(b)) + b


class Client:
    # pylint: disable=too-many-instance-attributes
    def __init__(self, cid, world):
        import dawgie.db.shelve.comms as comms  # pylint: disable=import-outside-toplevel

        self.cid = cid
        self.addr = IPv4Address('TCP', '10.1.0.%d' % (cid + 1), 41000 + cid)
        self.proto = comms.DBSerializer().buildProtocol(self.addr)
        self.tr = StringTransport(peerAddress=self.addr)
        self.proto.makeConnection(self.tr)
        self.buf = b''
        self.lost = False
        self.requested_at = None  # virtual time the acquire frame was completely delivered
        self.pending = b''  # undelivered rest of a split frame
        self.grants = 0  # unlock statuses written to this client's transport
        self.read_grant = False
        self.released = False  # release acknowledged with True
        self.release_sent = False
        self.acks = []
        self.statuses = 0
        self.world = world

    def deliver(self, data):
        self.proto.dataReceived(data)

    def scan(self):
        '''parse everything the server wrote so far (monitor side, non destructive)'''
        from dawgie.db.shelve.enums import Mutex  # pylint: disable=import-outside-toplevel

        data = self.tr.value()
        grants, acks, statuses = 0, [], 0
        while len(data) >= 4:
            (n,) = struct.unpack('>I', data[:4])
            if len(data) < 4 + n:
                break
            obj = pickle.loads(data[4 : 4 + n])
            data = data[4 + n :]
            if isinstance(obj, Mutex):
                statuses += 1
                if obj == Mutex.unlock:
                    grants += 1
            else:
                acks.append(obj)
        return grants, acks, statuses

    def has_lock(self):
        return bool(getattr(self.proto, '_Worker__has_lock'))

    def lose(self):
        if not self.lost:
            self.lost = True
            self.proto.connectionLost(netsim.LOST)


class LockSim:
    '''one script'''

    # pylint: disable=too-many-instance-attributes
    def __init__(self, world, res):
        import dawgie.context as ctx  # pylint: disable=import-outside-toplevel
        import dawgie.db.shelve.comms as comms  # pylint: disable=import-outside-toplevel

        self.world, self.ctx, self.comms, self.res = world, ctx, comms, res
        self.rx = world.reactor
        self.clients = {}
        self.bad = []
        self.free_since = self.rx.seconds()
        self.t0 = self.rx.seconds()
        self.grants_total = 0
        self.nontrivial = False
        self.steps = 0
        self.drain_lag = 0
        self.lock_events = 0
        self.reset()

    def reset(self):
        self.rx.reset(keep_servers=True)
        self.ctx.db_lock = False
        # lock-bit transitions are recorded at the instant they happen (a grant that is
        # given and lost again within one reactor turn must still count as a grant)
        ctx, sim = self.ctx, self
        if not hasattr(ctx, '_vf_lock_db'):
            ctx._vf_lock_db, ctx._vf_unlock_db = ctx.lock_db, ctx.unlock_db  # pylint: disable=protected-access

        def lock_db():
            ctx._vf_lock_db()  # pylint: disable=protected-access
            sim.free_since = None
            sim.lock_events += 1

        def unlock_db():
            ctx._vf_unlock_db()  # pylint: disable=protected-access
            sim.free_since = sim.rx.seconds()

        ctx.lock_db, ctx.unlock_db = lock_db, unlock_db

    # -- ops ---------------------------------------------------------------
    def apply(self, op):
        kind = op[0]
        if kind == 'acq':
            c = Client(op[1], self.world)
            self.clients[op[1]] = c
            fr = frame(self.comms.COMMAND(self.comms.Func.acquire, None, None, f'c{op[1]}'))
            cut = op[2] if len(op) > 2 and op[2] else len(fr)
            cut = min(max(1, cut), len(fr))
            c.deliver(fr[:cut])
            c.pending = fr[cut:]
            if not c.pending:
                c.requested_at = self.rx.seconds()
        elif kind == 'rest':
            c = self.clients.get(op[1])
            if c and not c.lost and c.pending:
                c.deliver(c.pending)
                c.pending = b''
                c.requested_at = self.rx.seconds()
        elif kind == 'tick':
            n = int(round(op[1] / STEP))
            for _ in range(n):
                self.rx.advance(STEP)
                self.check('tick')
            return
        elif kind == 'rel':
            c = self.clients.get(op[1])
            if c and not c.lost and not c.release_sent and c.requested_at is not None:
                c.release_sent = True
                held = c.has_lock()
                lock_before = bool(self.ctx.db_lock)
                c.deliver(frame(self.comms.COMMAND(self.comms.Func.release, None, None, None)))
                _g, acks, _s = c.scan()
                want = bool(held)
                if not acks or bool(acks[-1]) != want:
                    self.bad.append(('release-ack', f'client {c.cid} (owned lock={held}) released, server answered {acks[-1:]}'))
                if held and self.ctx.db_lock:
                    self.bad.append(('release-frees', f'client {c.cid} released the lock but the lock bit is still set'))
                if not held and bool(self.ctx.db_lock) != lock_before:
                    self.bad.append(('release-by-stranger', f'client {c.cid} holds nothing, its release changed the lock bit'))
                if held:
                    c.released = True
                # the server closes after a release; the reactor reports the loss once the
                # reply has been flushed, i.e. some time later: timers may fire in between
                if c.tr.disconnecting:
                    lag = op[2] if len(op) > 2 else 0
                    if lag:
                        self.rx.callLater(lag, c.lose)
                    else:
                        c.lose()
        elif kind == 'drop':
            c = self.clients.get(op[1])
            if c and not c.lost:
                waiting_others = any(
                    o is not c and not o.lost and o.requested_at is not None and not o.grants for o in self.clients.values()
                )
                if waiting_others and c.requested_at is not None:
                    self.nontrivial = True
                owned = c.has_lock()
                c.lose()
                if owned and self.ctx.db_lock and not any(o.has_lock() and not o.lost for o in self.clients.values()):
                    self.bad.append(('crash-releases', f'holder {c.cid} disconnected, the lock bit is still set in the same callback'))
        self.check(kind)

    # -- invariants -------------------------------------------------------------
    def check(self, where):
        # pylint: disable=too-many-branches
        self.steps += 1
        now = self.rx.seconds()
        holders = []
        for c in self.clients.values():
            g, acks, st = c.scan()
            if g > c.grants:
                self.grants_total += g - c.grants
            if c.lost and g > getattr(c, 'grants_at_loss', g):
                self.bad.append(('no-grant-after-disconnect', f'client {c.cid} was told "unlock" after its connection was lost'))
            c.grants, c.acks, c.statuses = g, acks, st
            if c.lost and not hasattr(c, 'grants_at_loss'):
                c.grants_at_loss = g
            if g > 1:
                self.bad.append(('granted-once', f'client {c.cid} was told "unlock" {g} times'))
            if g and not c.released and not c.lost:
                holders.append(c)
            if c.lost and c.has_lock():
                self.bad.append(('ownership-after-disconnect', f'connection {c.cid} is lost but still marked as owning the lock'))
        if len(holders) > 1:
            self.bad.append(('exclusive', f'clients {[c.cid for c in holders]} have all been told they hold the lock ({where})'))
        for c in holders:
            if not c.has_lock() or not self.ctx.db_lock:
                self.bad.append(
                    ('told-only-when-held',
                     f'client {c.cid} was told it holds the lock but connection owns={c.has_lock()} lock bit={self.ctx.db_lock} ({where})')
                )
        owners = [c for c in self.clients.values() if c.has_lock() and not c.lost]
        if bool(self.ctx.db_lock) != bool(owners):
            self.bad.append(('lock-bit-iff-owner', f'lock bit={self.ctx.db_lock} but live owning connections={[c.cid for c in owners]} ({where})'))
        if len(owners) > 1:
            self.bad.append(('exclusive', f'connections {[c.cid for c in owners]} own the lock at once'))
        # bounded liveness
        if self.ctx.db_lock:
            self.free_since = None
        elif self.free_since is None:
            self.free_since = now
        # a waiter whose poll happened while the lock was (even briefly) taken starts over
        if self.free_since is not None:
            lim = PERIOD + 2 * STEP
            for c in self.clients.values():
                if c.lost or c.requested_at is None or c.grants or c.release_sent:
                    continue
                if now - max(self.free_since, c.requested_at) > lim:
                    self.bad.append(
                        ('granted-within-a-period',
                         f'lock free since t={self.free_since - self.t0:.2f}, client {c.cid} waiting since '
                         f't={c.requested_at - self.t0:.2f}, still not granted at t={now - self.t0:.2f} ({c.statuses} polls answered)')
                    )
                    break

    def drain(self):
        '''every grantee releases; every connected waiter must be served within #waiters+1 periods'''
        waiters = [c for c in self.clients.values() if not c.lost and c.requested_at is not None and not c.grants and not c.release_sent]
        bound = (len(waiters) + 1) * PERIOD + 2.0
        t = 0.0
        while t <= bound and not self.bad:
            for c in list(self.clients.values()):
                if c.grants and not c.released and not c.lost and not c.release_sent:
                    self.apply(('rel', c.cid, self.drain_lag))
            left = [c for c in waiters if not c.grants and not c.lost]
            if not left:
                return True
            self.apply(('tick', STEP))
            t += STEP
        if not self.bad:
            left = [c.cid for c in waiters if not c.grants and not c.lost]
            if left:
                self.bad.append(('drain-serves-all', f'waiters {left} not served within {bound:.1f}s of draining'))
        return False


def gen_script(rng, nmax=None):
    n = nmax or rng.choice([1, 2, 2, 3, 3, 3, 4, 5, 8])
    ops = []
    started, pend = [], []
    length = rng.choice([4, 6, 8, 10, 12]) + n
    for _ in range(length):
        k = rng.random()
        idle = [c for c in range(n) if c not in started]
        if idle and (k < 0.35 or not started):
            c = rng.choice(idle)
            started.append(c)
            if rng.random() < 0.2:
                ops.append(('acq', c, rng.randint(1, 30)))
                pend.append(c)
            else:
                ops.append(('acq', c, 0))
        elif pend and k < 0.45:
            ops.append(('rest', pend.pop(0)))
        elif k < 0.75:
            ops.append(('tick', rng.choice([0.25, 0.5, 1.0, 1.0, 2.0, 3.0, 3.25])))
        elif k < 0.95 and started:
            ops.append(('rel', rng.choice(started), rng.choice([0, 0, 0.25, 1.0, 3.5])))
        elif started:
            ops.append(('drop', rng.choice(started)))
    return {'n': n, 'ops': ops, 'drain_lag': rng.choice([0, 0.25, 1.0])}


def run_script(world, script, res, fault=None):
    sim = LockSim(world, res)
    ops = list(script['ops'])
    if fault is not None:
        ops.insert(fault[0], ('drop', fault[1]))
    for op in ops:
        sim.apply(tuple(op))
        if sim.bad:
            break
    if not sim.bad:
        sim.drain_lag = script.get('drain_lag', 0)
        sim.drain()
    for c in sim.clients.values():
        c.lose()
    res.count('steps_checked', sim.steps)
    res.count('grants_observed', sim.grants_total)
    return sim


def run_real_client(world, rng, res):
    '''comms.acquire/release (the blocking client functions) over netsim'''
    import dawgie.context as ctx  # pylint: disable=import-outside-toplevel
    import dawgie.db.shelve.comms as comms  # pylint: disable=import-outside-toplevel

    bad = []
    world.reactor.reset()
    world.fresh_db()
    ctx.db_lock = False
    net = world.net
    sim = LockSim(world, res)
    hold = rng.random() < 0.6
    if hold:
        sim.apply(('acq', 0, 0))
        delay = rng.choice([0.5, 2.0, 4.0, 7.0])
        world.reactor.callLater(delay, lambda: sim.apply(('rel', 0)) if rng.random() < 0.7 else sim.apply(('drop', 0)))
    net.deadline = world.reactor.seconds() + 60.0
    try:
        s = comms.acquire('real')
        res.count('real_client_acquires')
        if not ctx.db_lock:
            bad.append(('told-only-when-held', 'comms.acquire returned but the lock bit is not set'))
        owner = [c for c in net.conns if c is s]
        if not owner or not getattr(s.proto, '_Worker__has_lock'):
            bad.append(('told-only-when-held', 'comms.acquire returned but its connection does not own the lock'))
        if hold and sim.clients[0].has_lock() and not sim.clients[0].lost:
            bad.append(('exclusive', 'comms.acquire returned while the first holder still owns the lock'))
        r = comms.release(s)
        if r is not True or ctx.db_lock:
            bad.append(('release-frees', f'comms.release returned {r}, lock bit={ctx.db_lock}'))
    except netsim.WouldBlock as e:
        bad.append(('granted-within-a-period', f'comms.acquire still blocked after the holder was gone: {e}'))
    net.deadline = None
    for c in sim.clients.values():
        c.lose()
    return bad + sim.bad


_WORLD = []


def get_world():
    from .. import world  # pylint: disable=import-outside-toplevel

    if not _WORLD:
        w = world.World(fsm=False)
        w.fresh_db()
        w.net = netsim.Net(w.reactor).install()
        _WORLD.append(w)
    return _WORLD[0]


def run_shard(spec):
    boot.init()
    res = Result()
    rng = random.Random(spec['seed'])
    w = get_world()
    n = 0
    while keep_going(res, spec):
        script = gen_script(rng)
        n += 1
        sims = [(None, run_script(w, script, res))]
        res.count('scripts')
        # fault enumeration: a disconnect of every client at every position
        if not sims[0][1].bad:
            faults = [(p, c) for p in range(len(script['ops']) + 1) for c in range(script['n'])]
            if script['n'] > 3 and len(faults) > 24:
                faults = rng.sample(faults, 24)
            else:
                res.count('scripts_with_exhaustive_faults')
            for f in faults:
                sims.append((f, run_script(w, script, res, f)))
                res.count('faults_injected')
        res.count('evaluations', len(sims))
        for fault, sim in sims:
            if sim.nontrivial:
                res.see('nontrivial', h64([script, fault]))
            seen = set()
            for clause, detail in sim.bad:
                if clause in seen:
                    continue
                seen.add(clause)
                res.violation(clause, detail, {'mode': 'script', 'script': script, 'fault': fault}, mechanism='C13/' + clause)
        if n <= 2:
            res.sample({'clients': script['n'], 'ops': script['ops'], 'faults_enumerated': len(sims) - 1})
        if n % 10 == 0:
            for clause, detail in run_real_client(w, rng, res):
                res.violation(clause, detail, {'mode': 'real', 'seed': spec['seed']}, mechanism='C13/real-' + clause)
    return res


def replay(witness):
    boot.init()
    res = Result()
    w = get_world()
    if witness['mode'] == 'script':
        sim = run_script(w, witness['script'], res, tuple(witness['fault']) if witness.get('fault') else None)
        for clause, detail in sim.bad:
            res.violation(clause, detail, witness, mechanism='C13/' + clause)
    else:
        rng = random.Random(witness['seed'])
        for _ in range(200):
            for clause, detail in run_real_client(w, rng, res):
                res.violation(clause, detail, witness, mechanism='C13/real-' + clause)
    res.count('evaluations')
    return res
