'''self-test of the monitors: python -m vf.selftest [IDs...] [--only name] [--pristine]

Copies <repo>/Python to a scratch directory, applies ONE textual mutation from
vf/mutants.py, runs the quick check with VERIF_REPO pointing there and expects
exit 1 (exit 0 on the pristine copy).  Not a registered check.
'''

import argparse
import os
import shutil
import subprocess
import sys
import tempfile
import time

from . import mutants

VERIF = os.path.dirname(os.path.dirname(os.path.abspath(__file__)))


def run_one(pid, mut, tier='quick'):
    td = tempfile.mkdtemp(prefix='vf-mut-')
    try:
        shutil.copytree('/repo/Python', os.path.join(td, 'Python'))
        if mut is not None:
            fn = os.path.join(td, 'Python', 'dawgie', mut['file'])
            with open(fn, 'rt', encoding='utf-8') as f:
                src = f.read()
            if src.count(mut['old']) != mut.get('count', 1):
                return None, f'pattern occurs {src.count(mut["old"])}x in {mut["file"]}'
            with open(fn, 'wt', encoding='utf-8') as f:
                f.write(src.replace(mut['old'], mut['new']))
        env = dict(os.environ, VERIF_REPO=td)
        t0 = time.time()
        cp = subprocess.run(
            [os.path.join(VERIF, 'check'), pid, '--tier', tier],
            env=env, capture_output=True, check=False, cwd=VERIF,
        )
        out = cp.stdout.decode(errors='replace')
        tail = [ln for ln in out.splitlines() if ln.startswith(('VIOLATION', 'INCONCLUSIVE', 'HELD', 'KNOWN', '  C'))]
        return cp.returncode, f'{time.time() - t0:.0f}s ' + ' | '.join(tail[:4])[:600]
    finally:
        shutil.rmtree(td, ignore_errors=True)


def main():
    ap = argparse.ArgumentParser()
    ap.add_argument('ids', nargs='*')
    ap.add_argument('--only', default=None)
    ap.add_argument('--pristine', action='store_true')
    ap.add_argument('--tier', default='quick')
    args = ap.parse_args()
    ids = [i.upper() for i in args.ids] or sorted(mutants.MUTANTS)
    bad = 0
    for pid in ids:
        if args.pristine:
            rc, msg = run_one(pid, None, args.tier)
            ok = rc == 0
            bad += not ok
            print(f'{pid} pristine: rc={rc} {"ok" if ok else "UNEXPECTED"} {msg}', flush=True)
            continue
        for mut in mutants.MUTANTS.get(pid, []):
            if args.only and args.only not in mut['name']:
                continue
            rc, msg = run_one(pid, mut, args.tier)
            ok = rc == 1
            bad += not ok
            print(f'{pid} {mut["name"]}: rc={rc} {"caught" if ok else "MISSED"} {msg}', flush=True)
    return 1 if bad else 0


if __name__ == '__main__':
    sys.exit(main())
