'''database simulator: the real shelve back end (DBI, comms.Worker, Connector,
model.Interface, db.util) in a scratch directory, reached through netsim, with a
reference dictionary model kept alongside.  Shared by C06, C07, C08, C17.
'''

import copy
import hashlib
import os
import pickle

from . import dbtypes, netsim

NAMES = {
    'task': ['tk', 'tk2', 'tka', 't'],
    'alg': ['alg', 'alg2', 'alg_x', 'a', 'ab', 'al'],
    'sv': ['sv', 'sv1', 'sv_2', 's'],
    'v': ['v', 'val', 'v1', 'v10', 'va'],
    'target': ['T', 'T1', 'T10', 'Tx', 'tgt (sub)', 'A b'],
}


def with_bots():
    import dawgie  # pylint: disable=import-outside-toplevel

    class Bot(dawgie.Task):
        def __init__(self, name, runid, target, algs):
            dawgie.Task.__init__(self, name, 0, runid, target)
            self._algs = algs

        def list(self):
            return self._algs

    class ABot(dawgie.Analysis):
        def __init__(self, name, runid, algs):
            dawgie.Analysis.__init__(self, name, 0, runid)
            self._algs = algs

        def list(self):
            return self._algs

    class RBot(dawgie.Regress):
        def __init__(self, name, target, algs):
            dawgie.Regress.__init__(self, name, 0, target)
            self._algs = algs

        def list(self):
            return self._algs

    return Bot, ABot, RBot


class Schema:
    '''the "software": tasks -> algorithms -> state vectors -> values with versions'''

    def __init__(self, rng, n_algs=4, wide=False):
        self.algs = {}  # (task, alg) -> {'ver': [..], 'svs': {svn: {'ver': [...], 'vals': {vn: ver}}}}
        tasks = rng.sample(NAMES['task'], rng.randint(1, 3))
        # wide: enough algorithms that catalogue ids reach two digits (id 1 is a decimal prefix of 10..19)
        names = NAMES['alg'] + (['alg10', 'abc', 'b', 'al2', 'alg_y', 'a2', 'x', 'alg_x2', 'ba', 'a_'] if wide else [])
        n_algs = min(n_algs, len(names) * len(tasks))
        while len(self.algs) < n_algs:
            tk = rng.choice(tasks)
            an = rng.choice(names)
            if (tk, an) in self.algs:
                continue
            svs = {}
            for svn in rng.sample(NAMES['sv'], rng.randint(1, 2)):
                svs[svn] = {'ver': ver(rng), 'vals': {vn: ver(rng) for vn in rng.sample(NAMES['v'], rng.randint(1, 3))}}
            self.algs[(tk, an)] = {'ver': ver(rng), 'svs': svs}

    def keys(self):
        return sorted(self.algs)

    def identity(self, tk, an, svn, vn):
        a = self.algs[(tk, an)]
        s = a['svs'][svn]
        return (tk, an, tuple(a['ver']), svn, tuple(s['ver']), vn, tuple(s['vals'][vn]))

    def bump(self, rng):
        '''bump one version somewhere; returns a description'''
        tk, an = rng.choice(self.keys())
        a = self.algs[(tk, an)]
        k = rng.random()
        if k < 0.34:
            a['ver'] = bumped(rng, a['ver'])
            return ['alg', tk, an, a['ver']]
        svn = rng.choice(sorted(a['svs']))
        s = a['svs'][svn]
        if k < 0.67:
            s['ver'] = bumped(rng, s['ver'])
            return ['sv', tk, an, svn, s['ver']]
        vn = rng.choice(sorted(s['vals']))
        s['vals'][vn] = bumped(rng, s['vals'][vn])
        return ['v', tk, an, svn, vn, s['vals'][vn]]


def ver(rng):
    return [rng.randint(1, 2), rng.randint(0, 2), rng.randint(0, 2)]


def bumped(rng, v):
    v = list(v)
    i = rng.randrange(3)
    v[i] += 1
    return v


def make_factory(pkg, task, kind='task'):
    '''a factory function as dawgie.util.task_name / Factories.resolve see it'''
    Bot, ABot, RBot = with_bots()

    if kind == 'task':
        def task_(prefix, ps_hint=0, runid=-1, target='__none__'):  # noqa: ARG001
            return Bot(prefix, runid, target, [])

        f = task_
    elif kind == 'analysis':
        def analysis_(prefix, ps_hint=0, runid=-1):  # noqa: ARG001
            return ABot(prefix, runid, [])

        f = analysis_
    else:
        def regress_(prefix, ps_hint=0, target='__none__'):  # noqa: ARG001
            return RBot(prefix, target, [])

        f = regress_
    f.__name__ = kind
    f.__qualname__ = kind
    f.__module__ = f'{pkg}.{task}'
    return f


def payload(rng, uid):
    k = rng.random()
    if k < 0.15:
        data = rng.randint(-10**12, 10**12)
    elif k < 0.3:
        data = rng.random()
    elif k < 0.45:
        data = 's' * rng.randint(0, 50) + str(rng.random())
    elif k < 0.55:
        data = bytes(rng.getrandbits(8) for _ in range(rng.randint(0, 200)))
    elif k < 0.7:
        data = [rng.random() for _ in range(rng.randint(0, 20))]
    elif k < 0.85:
        data = {'k%d' % i: (i, str(i), None) for i in range(rng.randint(0, 8))}
    else:
        data = None
    return {'uid': uid, 'data': data}


class DbSim:
    # pylint: disable=too-many-instance-attributes
    PKG = 'dbae'

    def __init__(self, world):
        import dawgie  # pylint: disable=import-outside-toplevel
        import dawgie.db  # pylint: disable=import-outside-toplevel
        from dawgie.db.shelve.state import DBI  # pylint: disable=import-outside-toplevel

        self.dawgie, self.db, self.DBI = dawgie, dawgie.db, DBI
        self.world = world
        self.ctx = world.ctx
        self.ctx.ae_base_package = self.PKG
        if not hasattr(world, 'net'):
            world.net = netsim.Net(world.reactor).install()
        self.net = world.net
        self.Bot, self.ABot, self.RBot = with_bots()
        self.model = {}  # (run, target, identity) -> content
        self.targets = []
        self.uid = 0
        self.digests = set()  # every digest ever stored (model of the blob store)
        self.log = []

    # -- life cycle ----------------------------------------------------------
    def fresh(self, targets=()):
        self.world.reactor.reset()
        self.world.fresh_db(targets)
        self.model = {}
        self.targets = list(targets)
        self.digests = set()
        self.log = []

    def reopen(self):
        self.db.close()
        self.world.reactor.reset()
        self.ctx.db_lock = False
        self.db.open()

    def add_target(self, name):
        self.db.add(name)
        if name not in self.targets:
            self.targets.append(name)

    # -- element construction -------------------------------------------------------
    def build_alg(self, schema, tk, an, contents=None, cls=dbtypes.Alg, refs=()):
        '''fresh instances with the schema's current versions; contents: {(svn, vn): content}'''
        a = schema.algs[(tk, an)]
        svs = []
        for svn in sorted(a['svs']):
            s = a['svs'][svn]
            vals = {}
            for vn in sorted(s['vals']):
                c = dbtypes.SENTINEL if contents is None else contents.get((svn, vn), dbtypes.SENTINEL)
                vals[vn] = (c, s['vals'][vn])
            svs.append(dbtypes.SV(svn, s['ver'], vals))
        return cls(an, a['ver'], svs, refs)

    def next_uid(self, who):
        self.uid += 1
        return f'{who}#{self.uid}'

    # -- operations ---------------------------------------------------------------------
    def update(self, schema, tk, an, target, run, contents):
        '''real Dataset.update(); returns (new_values list, bot)'''
        alg = self.build_alg(schema, tk, an, contents)
        bot = self.Bot(tk, run, target, [alg])
        ds = self.db.connect(alg, bot, target)
        before = set(os.listdir(self.ctx.data_dbs))
        ds.update()
        order = []
        for sv in alg.state_vectors():
            for vn in sv.keys():
                ident = schema.identity(tk, an, sv.name(), vn)
                self.model[(run, target, ident)] = copy.deepcopy(contents[(sv.name(), vn)])
                order.append((sv.name(), vn, sv[vn]))
        if target not in self.targets:
            self.targets.append(target)
        return bot.new_values(), order, before

    def expect_load(self, schema, tk, an, target, run):
        '''model answer: {(svn, vn): content or SENTINEL}'''
        out = {}
        a = schema.algs[(tk, an)]
        for svn, s in a['svs'].items():
            for vn in s['vals']:
                ident = schema.identity(tk, an, svn, vn)
                if (run, target, ident) in self.model:
                    out[(svn, vn)] = self.model[(run, target, ident)]
                    continue
                runs = [k[0] for k in self.model if k[1] == target and k[2] == ident]
                out[(svn, vn)] = self.model[(max(runs), target, ident)] if runs else dbtypes.SENTINEL
        return out

    def load(self, schema, tk, an, target, run):
        alg = self.build_alg(schema, tk, an)
        bot = self.Bot(tk, run, target, [alg])
        ds = self.db.connect(alg, bot, target)
        ds.load()
        return {(sv.name(), vn): sv[vn].content for sv in alg.state_vectors() for vn in sv.keys()}

    def load_via_ref(self, schema, tk, an, target, run, level, consumer=('tkc', 'cons')):
        '''a consumer task loads the producer through an ALG/SV/V reference'''
        d = self.dawgie
        prod = self.build_alg(schema, tk, an)
        fac = make_factory(self.PKG, tk, 'task')
        if level == 'alg':
            ref = d.ALG_REF(fac, prod)
        elif level == 'sv':
            ref = d.SV_REF(fac, prod, prod.state_vectors()[0])
        else:
            sv = prod.state_vectors()[0]
            ref = d.V_REF(fac, prod, sv, sorted(sv.keys())[0])
        cons = dbtypes.Alg(consumer[1], (1, 0, 0), [dbtypes.SV('out', (1, 0, 0), {'o': (None, (1, 0, 0))})], [ref])
        bot = self.Bot(consumer[0], run, target, [cons])
        ds = self.db.connect(cons, bot, target)
        ds.load(ref)
        return {(sv.name(), vn): sv[vn].content for sv in prod.state_vectors() for vn in sv.keys()}

    def collect(self, schema, tk, an, run):
        '''analysis gather: {target: {(svn, vn): content}} for the refs to the whole producer'''
        d = self.dawgie
        prod = self.build_alg(schema, tk, an)
        fac = make_factory(self.PKG, tk, 'task')
        refs = [d.SV_REF(fac, prod, sv) for sv in prod.state_vectors()]
        anz = dbtypes.Anz('gatherer', (1, 0, 0), [dbtypes.SV('out', (1, 0, 0), {'o': (None, (1, 0, 0))})], refs)
        bot = self.ABot('tkz', run, [anz])
        asp = self.db.gather(anz, bot)
        asp.collect(refs)
        out = {}
        for tn in asp:
            for fsvn in asp[tn]:
                for vn in asp[tn][fsvn]:
                    out.setdefault(tn, {})[(fsvn.split('.')[-1], vn)] = asp[tn][fsvn][vn].content
        return out

    def expect_collect(self, schema, tk, an):
        out = {}
        a = schema.algs[(tk, an)]
        for svn, s in a['svs'].items():
            for vn in s['vals']:
                ident = schema.identity(tk, an, svn, vn)
                for (run, target, idn) in self.model:
                    if idn != ident:
                        continue
                    best = max(k[0] for k in self.model if k[1] == target and k[2] == ident)
                    out.setdefault(target, {})[(svn, vn)] = self.model[(best, target, ident)]
        return out

    def recede(self, schema, tk, an, target):
        d = self.dawgie
        prod = self.build_alg(schema, tk, an)
        fac = make_factory(self.PKG, tk, 'task')
        refs = [d.SV_REF(fac, prod, sv) for sv in prod.state_vectors()]
        reg = dbtypes.Reg('regr', (1, 0, 0), [dbtypes.SV('out', (1, 0, 0), {'o': (None, (1, 0, 0))})], refs)
        bot = self.RBot('tkr', target, [reg])
        tl = self.db.retreat(reg, bot)
        tl.recede(refs)
        out = {}
        for run in tl:
            for fsvn in tl[run]:
                for vn in tl[run][fsvn]:
                    out.setdefault(run, {})[(fsvn.split('.')[-1], vn)] = tl[run][fsvn][vn].content
        return out

    def expect_recede(self, schema, tk, an, target):
        out = {}
        a = schema.algs[(tk, an)]
        for svn, s in a['svs'].items():
            for vn in s['vals']:
                ident = schema.identity(tk, an, svn, vn)
                for (run, tg, idn), c in self.model.items():
                    if tg == target and idn == ident:
                        out.setdefault(run, {})[(svn, vn)] = c
        return out

    def remove(self, run, target, tk, an, svn, vn):
        '''db.remove + the model: exact names, every version'''
        self.db.remove(run, target, tk, an, svn, vn)
        for k in [k for k in self.model if k[0] == run and k[1] == target and (k[2][0], k[2][1], k[2][3], k[2][5]) == (tk, an, svn, vn)]:
            del self.model[k]

    # -- observations ---------------------------------------------------------------------
    def tables(self):
        t = self.DBI().tables
        return {n: dict(getattr(t, n)) for n in ('alg', 'prime', 'state', 'target', 'task', 'value')}

    def indices(self):
        i = self.DBI().indices
        return {n: list(getattr(i, n)) for n in ('alg', 'prime', 'state', 'target', 'task', 'value')}

    @staticmethod
    def digest(value):
        b = pickle.dumps(value, pickle.HIGHEST_PROTOCOL)
        return hashlib.md5(b).hexdigest() + '_' + hashlib.sha1(b).hexdigest()

    @staticmethod
    def file_digest(path):
        with open(path, 'rb') as f:
            b = f.read()
        return hashlib.md5(b).hexdigest() + '_' + hashlib.sha1(b).hexdigest()
