'''bootstrap shared by every shard process

 * puts <repo>/Python first on sys.path (the /venv holds a *different* dawgie)
 * installs the virtual reactor before any dawgie import
 * refuses to continue when the dawgie imported is not the tree under test
'''

import logging
import os
import shutil
import sys
import tempfile

VERIF = os.path.dirname(os.path.dirname(os.path.abspath(__file__)))
REPO = os.environ.get('VERIF_REPO') or '/repo'
PY = os.path.join(REPO, 'Python')
GUARD = 'DAWGIE_VERIF'

_scratch = []
_booted = {}


class WrongTree(RuntimeError):
    pass


def ensure_deps():
    deps = os.path.join(VERIF, '.deps')
    if deps not in sys.path:
        sys.path.append(deps)
    try:
        import icontract  # noqa: F401 pylint: disable=unused-import,import-outside-toplevel

        return True
    except ImportError:
        pass
    import subprocess  # pylint: disable=import-outside-toplevel

    subprocess.run(
        [
            '/venv/bin/pip',
            'install',
            '-q',
            '--no-index',
            '--find-links',
            '/opt/veriftools/wheels',
            '--target',
            deps,
            'icontract',
        ],
        check=False,
        stdout=subprocess.DEVNULL,
        stderr=subprocess.DEVNULL,
    )
    import importlib  # pylint: disable=import-outside-toplevel

    importlib.invalidate_caches()
    try:
        import icontract  # noqa: F401,F811 pylint: disable=unused-import,import-outside-toplevel

        return True
    except ImportError:
        return False


def scratch(prefix='vf'):
    base = os.environ.get('VERIF_SCRATCH', tempfile.gettempdir())
    d = tempfile.mkdtemp(prefix=prefix + '-', dir=base)
    _scratch.append(d)
    return d


def cleanup():
    while _scratch:
        shutil.rmtree(_scratch.pop(), ignore_errors=True)


def init(reactor=True, quiet=True):
    '''import dawgie from the tree under test; returns the dawgie module'''
    if 'dawgie' in _booted:
        return _booted['dawgie']
    os.environ[GUARD] = '1'
    if PY in sys.path:
        sys.path.remove(PY)
    sys.path.insert(0, PY)
    if reactor:
        from . import vreactor  # pylint: disable=import-outside-toplevel

        vreactor.install()
    if quiet:
        logging.disable(logging.CRITICAL)
    # context reads these at import
    os.environ.setdefault('USERNAME', 'verif')
    import dawgie  # pylint: disable=import-outside-toplevel
    import dawgie.context  # pylint: disable=import-outside-toplevel

    where = os.path.realpath(dawgie.__file__)
    if not where.startswith(os.path.realpath(PY) + os.sep):
        raise WrongTree(f'dawgie imported from {where}, expected under {PY}')
    _booted['dawgie'] = dawgie
    return dawgie


def stub_dot():
    '''replace only the SVG *rendering* of the DAG (dot costs ~0.5 s a call)

    Node.graph still runs (it computes the level attribute the scheduler needs).
    '''
    import dawgie.pl.dag  # pylint: disable=import-outside-toplevel

    def graph(dot, roots, name):  # same signature as Construct.graph
        for root in roots:
            root.graph(dot)
        return b'<svg/>'

    dawgie.pl.dag.Construct.graph = staticmethod(graph)
