'''what a shard reports: counters, distinct-hash sets, samples, violations'''

import contextlib
import hashlib
import json
import signal
import time


def h64(obj):
    s = json.dumps(obj, sort_keys=True, default=str).encode()
    return hashlib.blake2b(s, digest_size=8).hexdigest()


class Result:
    def __init__(self, max_samples=3, max_violations=40):
        self.counters = {}
        self.distinct = {}
        self.samples = []
        self.violations = []
        self.inconclusive = []
        self.extra = {}
        self._max_samples = max_samples
        self._max_violations = max_violations
        self._t0 = time.time()

    def count(self, name, n=1):
        self.counters[name] = self.counters.get(name, 0) + n

    def see(self, name, obj):
        d = self.distinct.setdefault(name, set())
        if len(d) >= 200000:  # enough to show diversity; keeps shard reports small
            self.count('distinct_cap_reached_' + name)
            return
        d.add(obj if isinstance(obj, str) and len(obj) <= 16 else h64(obj))

    def sample(self, obj):
        if len(self.samples) < self._max_samples:
            self.samples.append(obj)

    def violation(self, clause, detail, witness, mechanism=None):
        self.count('violations_raw')
        if len(self.violations) < self._max_violations:
            self.violations.append(
                {
                    'clause': clause,
                    'detail': detail,
                    'witness': witness,
                    'mechanism': mechanism,
                }
            )

    def elapsed(self):
        return time.time() - self._t0

    def as_dict(self):
        return {
            'counters': self.counters,
            'distinct': {k: sorted(v) for k, v in self.distinct.items()},
            'samples': self.samples,
            'violations': self.violations,
            'inconclusive': self.inconclusive,
            'extra': self.extra,
        }


class CaseTimeout(Exception):
    pass


@contextlib.contextmanager
def deadline(seconds):
    '''per-case watchdog (main thread only): raises CaseTimeout inside the case'''

    def handler(_sig, _frm):
        raise CaseTimeout(f'case exceeded {seconds}s')

    old = signal.signal(signal.SIGALRM, handler)
    signal.setitimer(signal.ITIMER_REAL, seconds)
    try:
        yield
    finally:
        signal.setitimer(signal.ITIMER_REAL, 0)
        signal.signal(signal.SIGALRM, old)


def keep_going(res, spec, frac=1.0):
    '''time-budgeted loops: run for the budget; on a loaded machine keep going (up to
    `stretch` x budget) until this shard has produced its share of the deciding counters'''
    e = res.elapsed()
    if e < spec['budget'] * frac:
        return True
    if e > spec['budget'] * spec.get('stretch', 5.0):
        return False
    for k, v in (spec.get('min') or {}).items():
        have = res.counters.get(k)
        if have is None:
            have = len(res.distinct.get(k, ())) if k in res.distinct else None
        if have is not None and have < v:
            return True
    return False
