'''importable (picklable) DAWGIE element types used by the database simulator.

One Value / StateVector / Algorithm class serves every name: the identity of a
stored value is its (task, algorithm, state vector, value) *names and versions*,
which are instance data here, so histories can use arbitrary names and bump any
version at any time.
'''

import dawgie

SENTINEL = '<<untouched>>'


class Val(dawgie.Value):
    def __init__(self, content=None, ver=(1, 0, 0)):
        dawgie.Value.__init__(self)
        self.content = content
        self._version_ = dawgie.VERSION(*ver)

    def features(self):
        return []


class SV(dawgie.StateVector):
    def __init__(self, name='sv', ver=(1, 0, 0), values=None):
        dawgie.StateVector.__init__(self)
        self._name = name
        self._version_ = dawgie.VERSION(*ver)
        for vn, (content, vver) in (values or {}).items():
            self[vn] = Val(content, vver)

    def name(self):
        return self._name

    def view(self, caller, visitor):
        return None


class _AlgMixin:
    # pylint: disable=too-few-public-methods,no-member,attribute-defined-outside-init
    def _setup(self, name, ver, svs, refs=()):
        self._name = name
        self._version_ = dawgie.VERSION(*ver)
        self._svs = svs
        self._refs = list(refs)

    def name(self):
        return self._name

    def state_vectors(self):
        return self._svs

    def feedback(self):
        return []

    def where(self):
        return dawgie.Distribution.auto


class Alg(_AlgMixin, dawgie.Algorithm):
    def __init__(self, name, ver, svs, refs=()):
        self._setup(name, ver, svs, refs)

    def previous(self):
        return self._refs

    def run(self, ds, ps):
        return None


class Anz(_AlgMixin, dawgie.Analyzer):
    def __init__(self, name, ver, svs, refs=()):
        self._setup(name, ver, svs, refs)

    def traits(self):
        return self._refs

    def run(self, aspects):
        return None


class Reg(_AlgMixin, dawgie.Regression):
    def __init__(self, name, ver, svs, refs=()):
        self._setup(name, ver, svs, refs)

    def variables(self):
        return self._refs

    def run(self, ps, timeline):
        return None
