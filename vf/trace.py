'''debug aid: python -m vf.trace <replay.json> -- prints observations and node state per event'''
import json
import sys

from . import boot, simfarm, simprops


def main():
    boot.init()
    rec = json.load(open(sys.argv[1], encoding='utf-8'))
    wit = rec['witness']
    case = {k: wit[k] for k in ('spec', 'targets', 'prerecord')}
    w = simprops.get_world()
    sim = simfarm.Sim(w, case['spec'], case['targets'], case['prerecord'], [])
    print('edges', sorted(sim.ref.aedges))
    print('kinds', sim.ref.kind)
    nlog = 0

    def show():
        nonlocal nlog
        for ln in sim.log[nlog:]:
            print('     ', ln)
        nlog = len(sim.log)
        st = {t: (sorted(n.get('todo')), sorted(n.get('doing'))) for t, n in sim.nodes().items() if n.get('todo') or n.get('doing')}
        print('      que', [j.tag for j in sim.sch.que], 'state', st, 'busy', list(sim.farm._busy), 'cluster', [(m.jobid, m.target) for m in sim.farm._cluster])

    show()
    for i, ev in enumerate(wit['events']):
        print(i, ev)
        sim.apply(ev)
        show()
    sim.close()
    boot.cleanup()


main()
