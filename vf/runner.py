'''./check <ID> [--tier quick|thorough] [--replay file]

Shards the property's workload over subprocesses, merges what the monitors
observed, adjudicates violations against /verif/known_findings.json, confirms
every unknown violation by replaying its witness in a fresh process and writes
/verif/evidence/<ID>.json.  Exit: 0 held, 1 violation, 2 inconclusive.
'''

import argparse
import concurrent.futures
import hashlib
import importlib
import json
import os
import subprocess
import sys
import tempfile
import time

VERIF = os.path.dirname(os.path.dirname(os.path.abspath(__file__)))
PYTHON = '/venv/bin/python'
NCPU = int(os.environ.get('VERIF_JOBS', os.cpu_count() or 4))


def module_for(pid):
    return importlib.import_module('vf.props.' + pid.lower())


def known_findings():
    fn = os.path.join(VERIF, 'known_findings.json')
    if not os.path.isfile(fn):
        return []
    with open(fn, 'rt', encoding='utf-8') as f:
        return json.load(f).get('findings', [])


def _env(scratch=None):
    env = dict(os.environ)
    if scratch:
        env['VERIF_SCRATCH'] = scratch
    env['PYTHONHASHSEED'] = '0'
    env['PYTHONDONTWRITEBYTECODE'] = '1'
    env['PYTHONPATH'] = VERIF
    env.setdefault('USERNAME', 'verif')
    return env


def _run_child(args, timeout, scratch=None):
    t0 = time.time()
    try:
        cp = subprocess.run(
            [PYTHON, '-m', 'vf.shard'] + args,
            cwd=VERIF,
            env=_env(scratch),
            timeout=timeout,
            capture_output=True,
            check=False,
        )
        return cp.returncode, cp.stdout.decode(errors='replace'), cp.stderr.decode(
            errors='replace'
        ), time.time() - t0
    except subprocess.TimeoutExpired as e:
        return (
            -9,
            (e.stdout or b'').decode(errors='replace'),
            (e.stderr or b'').decode(errors='replace') + '\nWATCHDOG',
            time.time() - t0,
        )


def run_shard(pid, spec, timeout, tmpdir):
    out = os.path.join(tmpdir, f'shard-{spec["index"]}.json')
    specfn = os.path.join(tmpdir, f'spec-{spec["index"]}.json')
    with open(specfn, 'wt', encoding='utf-8') as f:
        json.dump(spec, f)
    rc, so, se, wall = _run_child([pid, '--spec', specfn, '--out', out], timeout, tmpdir)
    res = None
    if os.path.isfile(out):
        with open(out, 'rt', encoding='utf-8') as f:
            res = json.load(f)
    return {'rc': rc, 'stdout': so, 'stderr': se, 'wall': wall, 'result': res, 'spec': spec}


def replay_fresh(pid, witness_file, timeout=600):
    '''re-execute one witness in a fresh process; True iff it reproduces'''
    with tempfile.TemporaryDirectory(prefix='vf-replay-') as td:
        out = os.path.join(td, 'replay.json')
        rc, _so, se, _w = _run_child(
            [pid, '--replay', witness_file, '--out', out], timeout, td
        )
        if not os.path.isfile(out):
            return None, f'replay child failed rc={rc}: {se[-2000:]}'
        with open(out, 'rt', encoding='utf-8') as f:
            res = json.load(f)
    return bool(res.get('violations')), res


def merge(results):
    counters, distinct, samples, violations, inconclusive = {}, {}, [], [], []
    extra = {}
    for r in results:
        for k, v in r.get('counters', {}).items():
            counters[k] = counters.get(k, 0) + v
        for k, v in r.get('distinct', {}).items():
            distinct.setdefault(k, set()).update(v)
        for s in r.get('samples', []):
            if len(samples) < 6:
                samples.append(s)
        violations.extend(r.get('violations', []))
        inconclusive.extend(r.get('inconclusive', []))
        for k, v in r.get('extra', {}).items():
            extra.setdefault(k, v)
    return counters, distinct, samples, violations, inconclusive, extra


def floors_for(mod, tier):
    '''deciding counters a run must reach to be conclusive.  The thorough tier runs ~24x longer than the quick
    one; its floors only guard against a vacuous run and are capped at 5x the quick floors so that a loaded
    machine makes the run shorter on work, not inconclusive after hours'''
    fl = dict(getattr(mod, 'FLOORS', {}).get(tier, {}))
    if tier == 'thorough':
        q = getattr(mod, 'FLOORS', {}).get('quick', {})
        fl = {k: (min(v, 5 * q[k]) if k in q else v) for k, v in fl.items()}
    return fl


def mech_key(v):
    return v.get('mechanism') or ('unclassified/' + v.get('clause', '?'))


def main(argv=None):
    # pylint: disable=too-many-locals,too-many-branches,too-many-statements
    ap = argparse.ArgumentParser()
    ap.add_argument('pid')
    ap.add_argument('--tier', default=os.environ.get('VERIF_TIER', 'quick'))
    ap.add_argument('--replay', default=None)
    ap.add_argument('--jobs', type=int, default=NCPU)
    args = ap.parse_args(argv)
    pid = args.pid.upper()
    tier = args.tier if args.tier in ('quick', 'thorough') else 'quick'
    seed = int(os.environ.get('VERIF_SEED', '0') or 0)
    mod = module_for(pid)
    t0 = time.time()

    if args.replay:
        ok, res = replay_fresh(pid, os.path.abspath(args.replay))
        if ok is None:
            print(f'INCONCLUSIVE property={pid} replay failed: {res}')
            return 2
        if ok:
            known = {k['mechanism']: k for k in known_findings() if k['property'] == pid and k['status'] == 'known'}
            for v in res['violations'][:3]:
                print(f'  reproduced: {v.get("clause")} :: {v.get("detail")}')
            mechs = {mech_key(v) for v in res['violations']}
            if mechs <= set(known):
                for m in sorted(mechs):
                    print(f'KNOWN-FINDING: property={pid} {m}: {known[m]["what"]} (witness {args.replay} reproduces)')
                return 0
            print(f'VIOLATION property={pid} replay={args.replay}')
            return 1
        print(f'replay of {args.replay} did not violate {pid}')
        return 0

    specs = mod.plan(tier, seed)
    for i, s in enumerate(specs):
        s['index'] = i
        s.setdefault('tier', tier)
        s.setdefault('seed', seed)
    floors0 = floors_for(mod, tier)
    for s in specs:
        # a shard's share of each floor (x2.5: some counters are produced by a subset of the shards)
        s.setdefault('min', {k: -(-int(v * 2.5) // len(specs)) for k, v in floors0.items()})
    timeout = getattr(mod, 'WATCHDOG', {}).get(tier, 900 if tier == 'quick' else 5400)
    results, problems = [], []
    with tempfile.TemporaryDirectory(prefix=f'vf-{pid}-') as td:
        with concurrent.futures.ThreadPoolExecutor(max_workers=args.jobs) as ex:
            futs = [ex.submit(run_shard, pid, s, timeout, td) for s in specs]
            for fu in futs:
                r = fu.result()
                if r['result'] is None:
                    problems.append(
                        f'shard rc={r["rc"]} wall={r["wall"]:.0f}s '
                        f'stderr={r["stderr"][-1500:]}'
                    )
                else:
                    for v in r['result'].get('violations', []):
                        v['_spec'] = r['spec']
                    r['result'].setdefault('extra', {})
                    results.append(r['result'])
    counters, distinct, samples, violations, inconclusive, extra = merge(results)
    inconclusive.extend(problems)

    # adjudicate
    known = {
        (k['property'], k['mechanism']): k
        for k in known_findings()
        if k.get('status') == 'known'
    }
    by_mech = {}
    for v in violations:
        by_mech.setdefault(mech_key(v), []).append(v)
    unknown, known_hit = [], []
    for mech, vs in sorted(by_mech.items()):
        if (pid, mech) in known:
            known_hit.append((mech, known[(pid, mech)], len(vs)))
        else:
            unknown.append((mech, vs))
    rdir = os.path.join(VERIF, 'replays') if not os.environ.get('VERIF_REPO') else os.path.join(tempfile.gettempdir(), 'vf-replays-other-tree')
    confirmed, unstable = [], []
    if unknown:
        os.makedirs(rdir, exist_ok=True)
    for mech, vs in unknown:
        # the smallest witnesses first; confirm at most 3 per mechanism
        vs.sort(key=lambda v: len(json.dumps(v.get('witness', {}), default=str)))
        done = 0
        for v in vs[:6]:
            h = hashlib.sha1(
                json.dumps(v.get('witness', {}), sort_keys=True, default=str).encode()
            ).hexdigest()[:10]
            fn = os.path.join(rdir, f'{pid}-{mech.replace("/", "_")}-{h}.json')
            with open(fn, 'wt', encoding='utf-8') as f:
                json.dump(
                    {'property': pid, 'mechanism': mech, 'clause': v.get('clause'),
                     'detail': v.get('detail'), 'witness': v.get('witness')},
                    f, indent=1, default=str,
                )
            ok, _res = replay_fresh(pid, fn)
            if ok:
                confirmed.append((mech, v, fn))
                done += 1
                if done >= 2:
                    break
            else:
                unstable.append((mech, v, fn))
        if not done:
            # none reproduces on its own: state at module level of the code under test may leak from one case
            # of a shard into the next.  Run the shard that reported it again, from a fresh process.
            v = vs[0]
            spec = dict(v.get('_spec') or {})
            if spec:
                spec['budget'] = float(spec.get('budget', 25.0)) * 2
                spec['min'] = {}
                fn = os.path.join(rdir, f'{pid}-{mech.replace("/", "_")}-shard{spec.get("index")}.json')
                with open(fn, 'wt', encoding='utf-8') as f:
                    json.dump({'property': pid, 'mechanism': mech, 'clause': v.get('clause'), 'detail': v.get('detail'),
                               'witness': {'_rerun_shard': spec}}, f, indent=1, default=str)
                ok, _res = replay_fresh(pid, fn, timeout=3600)
                if ok:
                    confirmed.append((mech, v, fn))
                    unstable[:] = [u for u in unstable if u[0] != mech]
    wall = time.time() - t0

    # evidence
    floors = floors_for(mod, tier)
    below = [
        f'{k}={counters.get(k, len(distinct.get(k, ())))}<{v}'
        for k, v in floors.items()
        if counters.get(k, len(distinct.get(k, ()))) < v
    ]
    nontrivial_key = getattr(mod, 'NONTRIVIAL', 'nontrivial')
    coverage = {
        'evaluations': int(counters.get('evaluations', 0)),
        'distinct_nontrivial': len(distinct.get(nontrivial_key, ())),
        'rule': getattr(mod, 'RULE', ''),
        'samples': samples[:6] or ['(none)'],
        'counters': counters,
        'distinct_counts': {k: len(v) for k, v in distinct.items()},
        'shards': len(specs),
        'shards_completed': len(results),
        'known_findings_hit': [
            {'mechanism': m, 'occurrences': n} for m, _k, n in known_hit
        ],
        'exhaustive': bool(extra.get('exhaustive', False)),
    }
    coverage.update({k: v for k, v in extra.items() if k not in coverage})
    evidence = {
        'property_id': pid,
        'tier': tier,
        'seed': seed,
        'level': getattr(mod, 'LEVEL', 'exploration'),
        'coverage': coverage,
        'assumptions': getattr(mod, 'ASSUMPTIONS', []),
        'wall_s': round(wall, 2),
        'violations': len(confirmed),
    }
    # evidence describes /repo: a run against another tree (VERIF_REPO, self-test only) must not overwrite it
    edir = os.path.join(VERIF, 'evidence') if not os.environ.get('VERIF_REPO') else os.path.join(tempfile.gettempdir(), 'vf-evidence-other-tree')
    os.makedirs(edir, exist_ok=True)
    with open(os.path.join(edir, f'{pid}.json'), 'wt', encoding='utf-8') as f:
        json.dump(evidence, f, indent=1, default=str)

    print(
        f'{pid} tier={tier} seed={seed} shards={len(results)}/{len(specs)} '
        f'evaluations={coverage["evaluations"]} '
        f'distinct_nontrivial={coverage["distinct_nontrivial"]} wall={wall:.1f}s'
    )
    for k in sorted(counters):
        print(f'  {k}: {counters[k]}')
    for k in sorted(distinct):
        print(f'  distinct {k}: {len(distinct[k])}')
    hit = {m: n for m, _k, n in known_hit}
    for (kp, mech), k in sorted(known.items()):
        if kp != pid:
            continue
        status = f'seen {hit[mech]}x in this run' if mech in hit else 'not reached by this run\'s random histories'
        wf = os.path.join(VERIF, k.get('witness', ''))
        if k.get('witness') and os.path.isfile(wf):
            ok, _r = replay_fresh(pid, wf)
            status += '; recorded witness ' + ('still reproduces' if ok else 'NO LONGER reproduces')
        print(f'KNOWN-FINDING: property={pid} {mech}: {k.get("what", "")} ({status})')
    if confirmed:
        for mech, v, fn in confirmed:
            print(f'  {mech}: {v.get("clause")} :: {str(v.get("detail"))[:400]}')
            print(f'VIOLATION property={pid} replay={fn}')
        return 1
    if unstable:
        for mech, v, fn in unstable[:5]:
            print(f'INCONCLUSIVE property={pid} witness did not reproduce: {mech} {fn}')
        return 2
    if inconclusive or below:
        for m in (inconclusive + below)[:10]:
            print(f'INCONCLUSIVE property={pid} {m}')
        return 2
    print(f'HELD property={pid} on everything observed')
    return 0


if __name__ == '__main__':
    sys.exit(main())
