#!/venv/bin/python
'''seeded-change bookkeeping (not a registered check)

  tools/seed.py confirm <src-dir> <PID> <name>   confirm a candidate (patch.diff, demo.py, notes.md in src-dir) in a
                                                 fresh scratch worktree of /repo HEAD and store it as seeded/<PID>-<name>/
  tools/seed.py run <PID>-<name> [PID ...] [--tier quick]
                                                 apply the patch to /repo, run ./check for the listed properties
                                                 (default: the seed's own), ALWAYS revert; prints one line per check
  tools/seed.py runall [--tier quick]            run every seed against its own property's check
'''

import json
import os
import shutil
import subprocess
import sys
import tempfile
import time

VERIF = os.path.dirname(os.path.dirname(os.path.abspath(__file__)))
SEEDED = os.path.join(VERIF, 'seeded')
PY = '/venv/bin/python'


def sh(cmd, cwd=None, env=None, timeout=1800):
    cp = subprocess.run(cmd, cwd=cwd, env=env, shell=isinstance(cmd, str), capture_output=True, timeout=timeout, check=False)
    return cp.returncode, cp.stdout.decode(errors='replace'), cp.stderr.decode(errors='replace')


def passing(wt):
    rc, out, _ = sh(
        f'PYTHONPATH={wt}/Python {PY} -m pytest -q -p no:cacheprovider --timeout=900 '
        "--continue-on-collection-errors -rA 2>/dev/null | grep '^PASSED' | sed 's/^PASSED //' | sort",
        cwd=wt,
    )
    return out.split('\n')


def demo(wt, path):
    env = dict(os.environ, PYTHONPATH=f'{wt}/Python', PYTHONDONTWRITEBYTECODE='1')
    try:
        rc, out, err = sh([PY, path], cwd=wt, env=env, timeout=300)
    except subprocess.TimeoutExpired:
        return -9, 'timeout'
    return rc, (out + err)[-600:]


def confirm(src, pid, name):
    src = os.path.abspath(src)
    wt = tempfile.mkdtemp(prefix='vf-seedwt-')
    os.rmdir(wt)
    rc, out, err = sh(['git', '-C', '/repo', 'worktree', 'add', '--detach', wt, 'HEAD'])
    assert rc == 0, err
    meta = {'property': pid, 'name': name, 'source': 'independent sub-agent (given only the property text and a scratch worktree)'}
    try:
        os.makedirs(os.path.join(wt, '_seed', '1'))
        d = os.path.join(wt, '_seed', '1', 'demo.py')
        text = open(os.path.join(src, 'demo.py'), encoding='utf-8').read()
        # demos were written against the agent's own worktree path
        import re

        text = re.sub(r'/tmp/wt/[CD]\d\d', wt, text)
        open(d, 'wt', encoding='utf-8').write(text)
        base = passing(wt)
        rc0, o0 = demo(wt, d)
        rc, out, err = sh(['git', '-C', wt, 'apply', '--index', os.path.join(src, 'patch.diff')])
        if rc != 0:
            rc, out, err = sh(['git', '-C', wt, 'apply', '--3way', os.path.join(src, 'patch.diff')])
        meta['applies'] = rc == 0
        if rc != 0:
            print('PATCH DOES NOT APPLY', err[-500:])
            return 1
        rc1, o1 = demo(wt, d)
        after = passing(wt)
        if after != base:  # one test of the suite is load sensitive: take the union of two runs
            after = sorted(set(after) | set(passing(wt)))
            if after != base:
                sh(['git', '-C', wt, 'stash'])
                base = sorted(set(base) | set(passing(wt)))
                sh(['git', '-C', wt, 'stash', 'pop'])
        meta.update(
            demo_without_change_rc=rc0, demo_with_change_rc=rc1,
            tests_passing_without=len([x for x in base if x]), tests_passing_with=len([x for x in after if x]),
            tests_pass_set_identical=base == after,
            confirmed_at_repo_head=sh(['git', '-C', '/repo', 'rev-parse', '--short', 'HEAD'])[1].strip(),
            ran=[
                'fresh worktree of /repo HEAD; demo (expect exit 0); git apply patch.diff; demo (expect non-zero); '
                "repository suite with PYTHONPATH=<worktree>/Python (pass set must equal the unmodified tree's)"
            ],
        )
        ok = rc0 == 0 and rc1 != 0 and base == after
        meta['confirmed'] = ok
        print(json.dumps(meta, indent=1))
        if not ok:
            print('demo without:', o0[-400:])
            print('demo with:', o1[-400:])
            print('test diff:', sorted(set(base) ^ set(after))[:10])
            return 1
        dst = os.path.join(SEEDED, f'{pid}-{name}')
        os.makedirs(dst, exist_ok=True)
        # store the patch as it applies to the current HEAD
        rc, out, err = sh(['git', '-C', wt, 'diff', 'HEAD', '--', 'Python'])
        assert out.strip(), 'empty patch'
        open(os.path.join(dst, 'patch.diff'), 'wt', encoding='utf-8').write(out)
        shutil.copy(os.path.join(src, 'demo.py'), os.path.join(dst, 'demo.py'))
        if os.path.isfile(os.path.join(src, 'notes.md')):
            shutil.copy(os.path.join(src, 'notes.md'), os.path.join(dst, 'notes.md'))
            notes = open(os.path.join(src, 'notes.md'), encoding='utf-8').read()
            meta['needs_to_manifest'] = 'see notes.md'
        json.dump(meta, open(os.path.join(dst, 'meta.json'), 'wt', encoding='utf-8'), indent=1)
        print('stored', dst)
        return 0
    finally:
        sh(['git', '-C', '/repo', 'worktree', 'remove', '--force', wt])
        shutil.rmtree(wt, ignore_errors=True)


def redemo(seed):
    '''is the seed still demonstrable at the current /repo HEAD (fixes made since may have removed its trigger)?'''
    import re

    d = os.path.join(SEEDED, seed)
    wt = tempfile.mkdtemp(prefix='vf-seedwt-')
    os.rmdir(wt)
    rc, out, err = sh(['git', '-C', '/repo', 'worktree', 'add', '--detach', wt, 'HEAD'])
    assert rc == 0, err
    try:
        os.makedirs(os.path.join(wt, '_seed', '1'))
        dm = os.path.join(wt, '_seed', '1', 'demo.py')
        text = open(os.path.join(d, 'demo.py'), encoding='utf-8').read()
        open(dm, 'wt', encoding='utf-8').write(re.sub(r'/tmp/wt/[CD]\d\d', wt, text))
        rc0, _o0 = demo(wt, dm)
        rc, out, err = sh(['patch', '-p1', '-s', '-i', os.path.join(d, 'patch.diff')], cwd=wt)
        applies = rc == 0
        rc1 = None
        if applies:
            rc1, _o1 = demo(wt, dm)
        head = sh(['git', '-C', '/repo', 'rev-parse', '--short', 'HEAD'])[1].strip()
        mfn = os.path.join(d, 'meta.json')
        meta = json.load(open(mfn, encoding='utf-8'))
        meta['redemo'] = {'repo_head': head, 'applies': applies, 'demo_without_change_rc': rc0, 'demo_with_change_rc': rc1,
                          'still_demonstrable': bool(applies and rc0 == 0 and rc1 not in (0, None))}
        json.dump(meta, open(mfn, 'wt', encoding='utf-8'), indent=1)
        print(seed, meta['redemo'], flush=True)
    finally:
        sh(['git', '-C', '/repo', 'worktree', 'remove', '--force', wt])
        shutil.rmtree(wt, ignore_errors=True)
    return 0


def run_scratch(seed, pids, tier):
    '''same as run() but on a scratch copy of /repo selected with VERIF_REPO (does not touch /repo)'''
    d = os.path.join(SEEDED, seed)
    patch = os.path.join(d, 'patch.diff')
    td = tempfile.mkdtemp(prefix='vf-seedrun-')
    results = {}
    try:
        shutil.copytree('/repo/Python', os.path.join(td, 'Python'))
        rc, out, err = sh(['patch', '-p1', '-s', '-i', patch], cwd=td)
        if rc != 0:
            print(f'{seed}: patch does not apply: {(out + err)[-300:]}')
            return 2
        env = dict(os.environ, VERIF_REPO=td)
        for pid in pids:
            t0 = time.time()
            rc, out, err = sh([os.path.join(VERIF, 'check'), pid, '--tier', tier], cwd=VERIF, env=env, timeout=7200)
            lines = [ln for ln in out.splitlines() if ln.startswith(('VIOLATION', 'INCONCLUSIVE', 'HELD'))]
            viol = [ln for ln in out.splitlines() if ln.startswith('  C') or ln.startswith('  unclassified')]
            results[pid] = (rc, (viol or lines or [''])[0])
            print(f'{seed} vs {pid} [{tier}, scratch copy]: rc={rc} {"CAUGHT" if rc == 1 else ("MISSED" if rc == 0 else "INCONCLUSIVE")} '
                  f'{time.time() - t0:.0f}s :: {(viol or lines or [""])[0][:300]}', flush=True)
    finally:
        shutil.rmtree(td, ignore_errors=True)
    _record(d, results, tier, 'scratch copy of /repo/Python with the patch applied (VERIF_REPO)')
    return 0


def _record(d, results, tier, how):
    mfn = os.path.join(d, 'meta.json')
    if os.path.isfile(mfn):
        meta = json.load(open(mfn, encoding='utf-8'))
        head = sh(['git', '-C', '/repo', 'rev-parse', '--short', 'HEAD'])[1].strip()
        vhead = sh(['git', '-C', VERIF, 'rev-parse', '--short', 'HEAD'])[1].strip()
        for p, r in results.items():
            meta.setdefault('check_results', {})[f'{p}:{tier}'] = {
                'verdict': 'caught' if r[0] == 1 else 'missed' if r[0] == 0 else 'inconclusive', 'first_report': r[1][:300],
                'how': how, 'repo_head': head, 'verif_head': vhead,
            }
        json.dump(meta, open(mfn, 'wt', encoding='utf-8'), indent=1)


def table():
    rows = ['| seed | property | what it needs to manifest (agent notes, first lines) | own check, quick tier |', '|---|---|---|---|']
    for seed in sorted(os.listdir(SEEDED)):
        mfn = os.path.join(SEEDED, seed, 'meta.json')
        if not os.path.isfile(mfn):
            continue
        meta = json.load(open(mfn, encoding='utf-8'))
        notes = ''
        nfn = os.path.join(SEEDED, seed, 'notes.md')
        if os.path.isfile(nfn):
            txt = [ln.strip() for ln in open(nfn, encoding='utf-8').read().splitlines() if ln.strip() and not ln.startswith('#')]
            notes = ' '.join(txt)[:260].replace('|', '/')
        res = meta.get('check_results', {})
        own = res.get(f'{meta["property"]}:quick')
        cell = '-'
        if isinstance(own, dict):
            cell = f'**{own["verdict"]}** - {own["first_report"][:160].replace("|", "/")}'
        elif own:
            cell = f'**{own}**'
        rd = meta.get('redemo')
        if rd and not rd.get('still_demonstrable'):
            cell += (f' - *no longer demonstrable at repo {rd["repo_head"]}: its own demonstration '
                     + ('fails on the unchanged tree too' if rd.get('demo_without_change_rc') else 'passes with the change applied')
                     + ' (a later `fix:` commit removed what it needed)*')
        if meta.get('manual_note'):
            cell += f' - *{meta["manual_note"]}*'
        if meta.get('rebased'):
            cell += f' - *patch re-applied by hand onto {meta["rebased"]["onto"]}*'
        rows.append(f'| {seed} | {meta["property"]} | {notes} | {cell} |')
    head = sh(['git', '-C', '/repo', 'rev-parse', '--short', 'HEAD'])[1].strip()
    out = ('# Seeded changes and the checks that catch them\n\n'
           f'Own-property quick check run against a scratch copy of /repo ({head}) with the seeded patch applied '
           '(`tools/seed.py sweep`).\n\n' + '\n'.join(rows) + '\n')
    open(os.path.join(SEEDED, 'RESULTS.md'), 'wt', encoding='utf-8').write(out)
    print(out)
    return 0


def run(seed, pids, tier):
    d = os.path.join(SEEDED, seed)
    patch = os.path.join(d, 'patch.diff')
    rc, out, err = sh(['git', '-C', '/repo', 'status', '--porcelain', '--', 'Python'])
    if out.strip():
        print('REFUSING: /repo/Python has uncommitted changes')
        return 2
    rc, out, err = sh(['git', '-C', '/repo', 'apply', patch])
    if rc != 0:
        print(f'{seed}: patch does not apply: {err[-300:]}')
        return 2
    results = {}
    try:
        for pid in pids:
            t0 = time.time()
            rc, out, err = sh([os.path.join(VERIF, 'check'), pid, '--tier', tier], cwd=VERIF, timeout=7200)
            lines = [ln for ln in out.splitlines() if ln.startswith(('VIOLATION', 'INCONCLUSIVE', 'HELD'))]
            viol = [ln for ln in out.splitlines() if ln.startswith('  C') or ln.startswith('  unclassified')]
            results[pid] = rc
            print(f'{seed} vs {pid} [{tier}]: rc={rc} {"CAUGHT" if rc == 1 else ("MISSED" if rc == 0 else "INCONCLUSIVE")} '
                  f'{time.time() - t0:.0f}s :: {(viol or lines or [""])[0][:300]}', flush=True)
    finally:
        sh(['git', '-C', '/repo', 'checkout', '--', '.'])
    mfn = os.path.join(d, 'meta.json')
    if os.path.isfile(mfn):
        meta = json.load(open(mfn, encoding='utf-8'))
        meta.setdefault('check_results', {}).update({f'{p}:{tier}': ('caught' if r == 1 else 'missed' if r == 0 else 'inconclusive') for p, r in results.items()})
        json.dump(meta, open(mfn, 'wt', encoding='utf-8'), indent=1)
    return 0


def main():
    a = sys.argv[1:]
    tier = 'quick'
    if '--tier' in a:
        i = a.index('--tier')
        tier = a[i + 1]
        del a[i : i + 2]
    if a[0] == 'confirm':
        return confirm(a[1], a[2], a[3])
    if a[0] in ('run', 'srun'):
        seed = a[1]
        pids = a[2:] or [seed.split('-')[0]]
        return (run if a[0] == 'run' else run_scratch)(seed, pids, tier)
    if a[0] == 'redemo':
        for seed in (a[1:] or sorted(x for x in os.listdir(SEEDED) if os.path.isfile(os.path.join(SEEDED, x, 'patch.diff')))):
            redemo(seed)
        return 0
    if a[0] == 'table':
        return table()
    if a[0] == 'sweep':
        for seed in sorted(os.listdir(SEEDED)):
            if os.path.isfile(os.path.join(SEEDED, seed, 'patch.diff')):
                run_scratch(seed, [seed.split('-')[0]], tier)
        return table()
    if a[0] == 'runall':
        for seed in sorted(os.listdir(SEEDED)):
            if os.path.isfile(os.path.join(SEEDED, seed, 'patch.diff')):
                run(seed, [seed.split('-')[0]], tier)
        return 0
    print(__doc__)
    return 2


if __name__ == '__main__':
    sys.exit(main())
