#!/bin/sh
# usage: tools/seed_take.sh <PID>  - confirm /tmp/wt/<PID>/_seed/{1,2} as the next free seeded/<PID>-<k> and run the
# property's quick check against each (scratch copy, never /repo); then remove the agent's worktree
cd "$(dirname "$0")/.." || exit 2
P=$1
for n in 1 2; do
  src=/tmp/wt/$P/_seed/$n
  [ -f "$src/patch.diff" ] && [ -f "$src/demo.py" ] || { echo "$P/$n: no deliverable"; continue; }
  k=1; while [ -e "seeded/$P-$k" ] || [ -e "seeded/unconfirmed/$P-$k" ]; do k=$((k+1)); done
  if /venv/bin/python tools/seed.py confirm "$src" "$P" "$k" > "/tmp/wt/$P.confirm$n.log" 2>&1; then
    VERIF_JOBS=${VERIF_JOBS:-6} /venv/bin/python tools/seed.py srun "$P-$k" 2>&1 | tail -1
  else
    echo "$P/$n: NOT CONFIRMED (see /tmp/wt/$P.confirm$n.log)"; tail -12 "/tmp/wt/$P.confirm$n.log"
    mkdir -p "seeded/unconfirmed/$P-$k" && cp "$src"/* "seeded/unconfirmed/$P-$k/" && cp "/tmp/wt/$P.confirm$n.log" "seeded/unconfirmed/$P-$k/confirm.log"
  fi
done
git -C /repo worktree remove --force "/tmp/wt/$P" 2>/dev/null; rm -rf "/tmp/wt/$P"
