#!/bin/sh
# usage: repo_tests.sh <repo-dir> -> prints sorted list of passing test ids when the
# repository's own suite is run against <repo-dir>/Python (the /venv holds another copy)
REPO="${1:-/repo}"
cd "$REPO" || exit 2
PYTHONPATH="$REPO/Python" /venv/bin/python -m pytest -q -p no:cacheprovider --timeout=900 \
  --continue-on-collection-errors -rA 2>/dev/null | grep '^PASSED' | sed 's/^PASSED //' | sort
