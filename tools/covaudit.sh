#!/bin/sh
# blind-spot audit (not a registered check): which lines of the anchored files do the quick workloads execute?
# usage: tools/covaudit.sh C01 [C02 ...]   -> /tmp/vf-cov/<ID>.txt (missing lines per file)
cd "$(dirname "$0")/.." || exit 2
for p in "$@"; do
  d=/tmp/vf-cov/$p; rm -rf "$d"; mkdir -p "$d"
  VERIF_COVERAGE=$d VERIF_REPO=/repo ./check "$p" --tier quick > "$d/check.out" 2>&1
  (cd "$d" && /venv/bin/python -m coverage combine --data-file=$d/all $d/cov.* >/dev/null 2>&1;
   /venv/bin/python -m coverage report --data-file=$d/all -m --include='/repo/Python/dawgie/*' > /tmp/vf-cov/$p.txt 2>&1)
  tail -3 "$d/check.out"
done
