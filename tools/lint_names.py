'''poor man's pyflakes: names that are read somewhere but bound nowhere visible (violation-reporting branches
of the monitors run rarely on a healthy tree - a typo there would turn a detection into a harness crash)'''
import ast
import builtins
import glob
import sys


def bound_names(node):
    out = set()
    for n in ast.walk(node):
        if isinstance(n, ast.Name) and isinstance(n.ctx, (ast.Store, ast.Del)):
            out.add(n.id)
        elif isinstance(n, (ast.FunctionDef, ast.AsyncFunctionDef, ast.ClassDef)):
            out.add(n.name)
        elif isinstance(n, (ast.Import, ast.ImportFrom)):
            for a in n.names:
                out.add((a.asname or a.name).split('.')[0])
        elif isinstance(n, ast.arg):
            out.add(n.arg)
        elif isinstance(n, ast.ExceptHandler) and n.name:
            out.add(n.name)
        elif isinstance(n, (ast.Global, ast.Nonlocal)):
            out.update(n.names)
        elif isinstance(n, ast.MatchAs) and n.name:
            out.add(n.name)
    return out


def main():
    bad = 0
    for fn in sorted(glob.glob('vf/*.py') + glob.glob('vf/props/*.py') + glob.glob('tools/*.py')):
        tree = ast.parse(open(fn, encoding='utf-8').read(), fn)
        known = bound_names(tree) | set(dir(builtins)) | {'__file__', '__name__', '__doc__'}
        for n in ast.walk(tree):
            if isinstance(n, ast.Name) and isinstance(n.ctx, ast.Load) and n.id not in known:
                print(f'{fn}:{n.lineno}: name {n.id!r} is never bound')
                bad += 1
    return 1 if bad else 0


if __name__ == '__main__':
    sys.exit(main())
